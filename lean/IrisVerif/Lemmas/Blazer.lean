/-
Helper definitions and lemmas for property C16 (block decomposition / sequential ordering).
The specification vocabulary (`HasPerfectMatching`, `NoInc`, `blockRows`, ...) lives here; the
property theorems are in `Props/C16.lean`.
-/
import IrisVerif.Model.Blazer
import Mathlib.Data.List.Perm.Basic
import Mathlib.Data.List.Perm.Subperm
import Mathlib.Data.List.Nodup
import Mathlib.Data.List.Pairwise
import Mathlib.Data.List.Sort

namespace IrisVerif.Blazer

/-! ### perfect matchings -/

/-- `P` is a perfect matching of the sub-matrix with rows `rows` and columns `cols`: a list of
incident (row, column) pairs whose rows are a permutation of `rows` and whose columns are a
permutation of `cols`. -/
def IsPM (im : Inc) (rows cols : List Nat) (P : List Pair) : Prop :=
  (rowsOf P).Perm rows ∧ (colsOf P).Perm cols ∧ ∀ p ∈ P, im p.1 p.2 = true

/-- structural non-singularity of the sub-matrix `rows × cols` -/
def HasPerfectMatching (im : Inc) (rows cols : List Nat) : Prop := ∃ P, IsPM im rows cols P

/-- executable form: match the first row with any incident column, recurse -/
def hasPMb (im : Inc) : List Nat → List Nat → Bool
  | [], cols => cols.isEmpty
  | r :: rs, cols => cols.any fun c => im r c && hasPMb im rs (cols.erase c)

theorem hasPMb_iff (im : Inc) (rows cols : List Nat) :
    hasPMb im rows cols = true ↔ HasPerfectMatching im rows cols := by
  constructor
  · intro h
    induction rows generalizing cols with
    | nil =>
      simp only [hasPMb, List.isEmpty_iff] at h
      subst h
      exact ⟨[], by simp [IsPM, rowsOf, colsOf]⟩
    | cons r rs ih =>
      simp only [hasPMb, List.any_eq_true, Bool.and_eq_true] at h
      obtain ⟨c, hc, hrc, hrest⟩ := h
      obtain ⟨P, hr, hcP, hinc⟩ := ih _ hrest
      refine ⟨(r, c) :: P, ?_, ?_, ?_⟩
      · simpa [rowsOf] using hr
      · have : (c :: colsOf P).Perm (c :: cols.erase c) := List.Perm.cons c hcP
        simpa [colsOf] using this.trans (List.perm_cons_erase hc).symm
      · intro p hp
        rcases List.mem_cons.1 hp with rfl | hp
        · exact hrc
        · exact hinc p hp
  · rintro ⟨P, hr, hc, hinc⟩
    induction rows generalizing cols P with
    | nil =>
      have : P = [] := by
        have := hr.length_eq
        simpa [rowsOf] using this
      subst this
      have : cols = [] := by
        have := hc.length_eq
        simpa [colsOf] using this.symm
      simp [hasPMb, this]
    | cons r rs ih =>
      have hmem : r ∈ rowsOf P := hr.symm.subset (List.mem_cons_self)
      obtain ⟨p, hpP, hp1⟩ := List.mem_map.1 hmem
      have hperm : P.Perm (p :: P.erase p) := List.perm_cons_erase hpP
      have hr' : (rowsOf (P.erase p)).Perm rs := by
        have h1 : (rowsOf P).Perm (p.1 :: rowsOf (P.erase p)) := by
          simpa [rowsOf] using hperm.map Prod.fst
        rw [hp1] at h1
        exact (h1.symm.trans hr).cons_inv
      have hc1 : (p.2 :: colsOf (P.erase p)).Perm cols := by
        have h1 : (colsOf P).Perm (p.2 :: colsOf (P.erase p)) := by
          simpa [colsOf] using hperm.map Prod.snd
        exact h1.symm.trans hc
      have hp2 : p.2 ∈ cols := hc1.subset (List.mem_cons_self)
      have hc' : (colsOf (P.erase p)).Perm (cols.erase p.2) := by
        have := hc1.erase p.2
        simpa using this
      simp only [hasPMb, List.any_eq_true, Bool.and_eq_true]
      refine ⟨p.2, hp2, ?_, ih _ _ hr' hc' ?_⟩
      · rw [← hp1]; exact hinc p hpP
      · intro q hq
        exact hinc q (List.mem_of_mem_erase hq)

instance (im : Inc) (rows cols : List Nat) : Decidable (HasPerfectMatching im rows cols) :=
  decidable_of_iff _ (hasPMb_iff im rows cols)

theorem IsPM.length_eq {im : Inc} {rows cols : List Nat} {P : List Pair} (h : IsPM im rows cols P) :
    rows.length = cols.length := by
  have h1 := h.1.length_eq
  have h2 := h.2.1.length_eq
  simp only [rowsOf, colsOf, List.length_map] at h1 h2
  omega

theorem HasPerfectMatching.length_eq {im : Inc} {rows cols : List Nat}
    (h : HasPerfectMatching im rows cols) : rows.length = cols.length := by
  obtain ⟨P, hP⟩ := h
  exact hP.length_eq

/-- in a perfect matching of duplicate-free rows, a pair is determined by its row -/
theorem IsPM.fst_inj {im : Inc} {rows cols : List Nat} {P : List Pair} (h : IsPM im rows cols P)
    (hn : rows.Nodup) {p q : Pair} (hp : p ∈ P) (hq : q ∈ P) (e : p.1 = q.1) : p = q :=
  List.inj_on_of_nodup_map (f := Prod.fst) ((h.1.nodup_iff).2 hn) hp hq e

theorem IsPM.snd_inj {im : Inc} {rows cols : List Nat} {P : List Pair} (h : IsPM im rows cols P)
    (hn : cols.Nodup) {p q : Pair} (hp : p ∈ P) (hq : q ∈ P) (e : p.2 = q.2) : p = q :=
  List.inj_on_of_nodup_map (f := Prod.snd) ((h.2.1.nodup_iff).2 hn) hp hq e

/-! ### membership in the prefetch stages -/

theorem single?_eq_some {l : List Nat} {c : Nat} : single? l = some c ↔ l = [c] := by
  match l with
  | [] => simp [single?]
  | [a] => simp [single?]
  | a :: b :: t => simp [single?]

theorem mem_removeAll {l d : List Nat} {x : Nat} : x ∈ removeAll l d ↔ x ∈ l ∧ x ∉ d := by
  simp [removeAll]

theorem mem_firstPairs {im : Inc} {ri ci : List Nat} {q : Pair} :
    q ∈ firstPairs im ri ci ↔ q.1 ∈ ri ∧ rowCols im ci q.1 = [q.2] := by
  obtain ⟨r, c⟩ := q
  simp only [firstPairs, List.mem_filterMap, Option.map_eq_some_iff, Prod.mk.injEq, single?_eq_some]
  constructor
  · rintro ⟨a, ha, c', hc', rfl, rfl⟩
    exact ⟨ha, hc'⟩
  · rintro ⟨h1, h2⟩
    exact ⟨r, h1, c, h2, rfl, rfl⟩

theorem mem_lastPairs {im : Inc} {ri ci : List Nat} {q : Pair} :
    q ∈ lastPairs im ri ci ↔ q.2 ∈ ci ∧ colRows im ri q.2 = [q.1] := by
  obtain ⟨r, c⟩ := q
  simp only [lastPairs, List.mem_filterMap, Option.map_eq_some_iff, Prod.mk.injEq, single?_eq_some]
  constructor
  · rintro ⟨a, ha, r', hr', rfl, rfl⟩
    exact ⟨ha, hr'⟩
  · rintro ⟨h1, h2⟩
    exact ⟨c, h1, r, h2, rfl, rfl⟩

theorem rowCols_single {im : Inc} {ci : List Nat} {r c : Nat} (h : rowCols im ci r = [c]) :
    c ∈ ci ∧ im r c = true ∧ ∀ c' ∈ ci, im r c' = true → c' = c := by
  have hc : c ∈ rowCols im ci r := by rw [h]; exact List.mem_singleton_self c
  simp only [rowCols, List.mem_filter] at hc
  refine ⟨hc.1, hc.2, fun c' hc' hi => ?_⟩
  have : c' ∈ rowCols im ci r := by simp only [rowCols, List.mem_filter]; exact ⟨hc', hi⟩
  rw [h] at this
  exact List.mem_singleton.1 this

theorem colRows_single {im : Inc} {ri : List Nat} {r c : Nat} (h : colRows im ri c = [r]) :
    r ∈ ri ∧ im r c = true ∧ ∀ r' ∈ ri, im r' c = true → r' = r := by
  have hc : r ∈ colRows im ri c := by rw [h]; exact List.mem_singleton_self r
  simp only [colRows, List.mem_filter] at hc
  refine ⟨hc.1, hc.2, fun r' hr' hi => ?_⟩
  have : r' ∈ colRows im ri c := by simp only [colRows, List.mem_filter]; exact ⟨hr', hi⟩
  rw [h] at this
  exact List.mem_singleton.1 this

theorem rowsOf_firstPairs_sublist (im : Inc) (ri ci : List Nat) :
    (rowsOf (firstPairs im ri ci)).Sublist ri := by
  induction ri with
  | nil => simp [firstPairs, rowsOf]
  | cons r t ih =>
    simp only [firstPairs, rowsOf, List.filterMap_cons] at ih ⊢
    cases single? (rowCols im ci r) with
    | none => exact ih.cons _
    | some c => simpa using ih.cons_cons r

theorem colsOf_lastPairs_sublist (im : Inc) (ri ci : List Nat) :
    (colsOf (lastPairs im ri ci)).Sublist ci := by
  induction ci with
  | nil => simp [lastPairs, colsOf]
  | cons c t ih =>
    simp only [lastPairs, colsOf, List.filterMap_cons] at ih ⊢
    cases single? (colRows im ri c) with
    | none => exact ih.cons _
    | some r => simpa using ih.cons_cons c

/-- a row with a single incidence is matched to that incidence in *every* perfect matching -/
theorem firstPairs_sub_pm {im : Inc} {ri ci : List Nat} {P : List Pair} (hP : IsPM im ri ci P)
    {q : Pair} (hq : q ∈ firstPairs im ri ci) : q ∈ P := by
  obtain ⟨h1, h2⟩ := mem_firstPairs.1 hq
  have : q.1 ∈ rowsOf P := hP.1.symm.subset h1
  obtain ⟨p, hpP, hp1⟩ := List.mem_map.1 this
  have hp2 : p.2 ∈ ci := hP.2.1.subset (List.mem_map.2 ⟨p, hpP, rfl⟩)
  have hinc := hP.2.2 p hpP
  rw [hp1] at hinc
  have := (rowCols_single h2).2.2 _ hp2 hinc
  have : p = q := Prod.ext hp1 this
  exact this ▸ hpP

theorem lastPairs_sub_pm {im : Inc} {ri ci : List Nat} {P : List Pair} (hP : IsPM im ri ci P)
    {q : Pair} (hq : q ∈ lastPairs im ri ci) : q ∈ P := by
  obtain ⟨h1, h2⟩ := mem_lastPairs.1 hq
  have : q.2 ∈ colsOf P := hP.2.1.symm.subset h1
  obtain ⟨p, hpP, hp2⟩ := List.mem_map.1 this
  have hp1 : p.1 ∈ ri := hP.1.subset (List.mem_map.2 ⟨p, hpP, rfl⟩)
  have hinc := hP.2.2 p hpP
  rw [hp2] at hinc
  have := (colRows_single h2).2.2 _ hp1 hinc
  have : p = q := Prod.ext this hp2
  exact this ▸ hpP

/-- removing matched pairs (rows and columns together) leaves a perfect matching of the rest -/
theorem IsPM.remove {im : Inc} {ri ci : List Nat} {P : List Pair} (hP : IsPM im ri ci P)
    (hri : ri.Nodup) (hci : ci.Nodup) {F : List Pair} (hF : ∀ q ∈ F, q ∈ P) :
    IsPM im (removeAll ri (rowsOf F)) (removeAll ci (colsOf F)) (P.filter fun p => !F.contains p) := by
  refine ⟨?_, ?_, ?_⟩
  · have hcongr : P.filter (fun p => !F.contains p) = P.filter ((fun x => !(rowsOf F).contains x) ∘ Prod.fst) := by
      apply List.filter_congr
      intro p hp
      simp only [Function.comp, rowsOf]
      congr 1
      rw [Bool.eq_iff_iff]
      simp only [List.contains_iff_mem, List.mem_map]
      constructor
      · intro h; exact ⟨p, h, rfl⟩
      · rintro ⟨q, hq, e⟩
        have := hP.fst_inj hri (hF q hq) hp e
        exact this ▸ hq
    rw [hcongr, rowsOf, ← List.filter_map]
    exact hP.1.filter _
  · have hcongr : P.filter (fun p => !F.contains p) = P.filter ((fun x => !(colsOf F).contains x) ∘ Prod.snd) := by
      apply List.filter_congr
      intro p hp
      simp only [Function.comp, colsOf]
      congr 1
      rw [Bool.eq_iff_iff]
      simp only [List.contains_iff_mem, List.mem_map]
      constructor
      · intro h; exact ⟨p, h, rfl⟩
      · rintro ⟨q, hq, e⟩
        have := hP.snd_inj hci (hF q hq) hp e
        exact this ▸ hq
    rw [hcongr, colsOf, ← List.filter_map]
    exact hP.2.1.filter _
  · intro p hp
    exact hP.2.2 p (List.mem_filter.1 hp).1

/-- a duplicate-free sub-collection and what is left after removing it make up the list -/
theorem split_perm {l d : List Nat} (hl : l.Nodup) (hd : d.Nodup) (hsub : ∀ x ∈ d, x ∈ l) :
    (d ++ removeAll l d).Perm l := by
  have h1 := List.filter_append_perm (fun x => d.contains x) l
  have h2 : (l.filter fun x => d.contains x).Perm d := by
    rw [List.perm_ext_iff_of_nodup (hl.filter _) hd]
    intro a
    simp only [List.mem_filter, List.contains_iff_mem]
    exact ⟨fun h => h.2, fun h => ⟨hsub a h, h⟩⟩
  exact (h2.symm.append_right _).trans h1

/-! ### one level of `prefetch` -/

/-- block `b` (earlier) has no incidence in the columns of block `b'` (later) -/
def NoInc (im : Inc) (b b' : Block) : Prop := ∀ r ∈ b.1, ∀ c ∈ b'.2, im r c = false

def blockRows (bs : List Block) : List Nat := bs.flatMap (·.1)
def blockCols (bs : List Block) : List Nat := bs.flatMap (·.2)

/-- one pass of `prefetch` (first, then last) without the recursive call -/
def step1 (im : Inc) (ri ci : List Nat) : Pre :=
  let f := firstPairs im ri ci
  let ri1 := removeAll ri (rowsOf f)
  let ci1 := removeAll ci (colsOf f)
  let l := lastPairs im ri1 ci1
  { first := f, last := l, ri := removeAll ri1 (rowsOf l), ci := removeAll ci1 (colsOf l) }

theorem prefetch_eq (im : Inc) (ri ci : List Nat) :
    prefetch im ri ci =
      if (step1 im ri ci).ri.length * (step1 im ri ci).ci.length < ri.length * ci.length then
        { first := (step1 im ri ci).first ++ (prefetch im (step1 im ri ci).ri (step1 im ri ci).ci).first,
          last := (prefetch im (step1 im ri ci).ri (step1 im ri ci).ci).last ++ (step1 im ri ci).last,
          ri := (prefetch im (step1 im ri ci).ri (step1 im ri ci).ci).ri,
          ci := (prefetch im (step1 im ri ci).ri (step1 im ri ci).ci).ci }
      else step1 im ri ci := by
  by_cases h : (step1 im ri ci).ri.length * (step1 im ri ci).ci.length < ri.length * ci.length
  · rw [if_pos h, prefetch]
    simp only [step1] at h ⊢
    rw [dif_pos h]
  · rw [if_neg h, prefetch]
    simp only [step1] at h ⊢
    rw [dif_neg h]

/-- what the theorems need to know about the result `p` of (a level of) `prefetch` on `ri × ci` -/
structure PreSpec (im : Inc) (ri ci : List Nat) (p : Pre) : Prop where
  rows_perm : (rowsOf p.first ++ p.ri ++ rowsOf p.last).Perm ri
  cols_perm : (colsOf p.first ++ p.ci ++ colsOf p.last).Perm ci
  /-- every perfect matching of the whole restricts to a perfect matching of the inner part -/
  inner_pm : ∀ P, IsPM im ri ci P → ∃ P', IsPM im p.ri p.ci P' ∧ ∀ q ∈ P', q ∈ P
  /-- prefetched pairs belong to every perfect matching -/
  sub_pm : ∀ P, IsPM im ri ci P → ∀ q ∈ p.first ++ p.last, q ∈ P
  /-- whatever lower block-triangular arrangement `mid` of the inner part is plugged in, the whole
  sequence first ++ mid ++ last is lower block-triangular -/
  lbt : ∀ mid : List Block, (∀ b ∈ mid, (∀ r ∈ b.1, r ∈ p.ri) ∧ (∀ c ∈ b.2, c ∈ p.ci)) →
    mid.Pairwise (NoInc im) → (singles p.first ++ mid ++ singles p.last).Pairwise (NoInc im)

theorem mem_singles {ps : List Pair} {b : Block} : b ∈ singles ps ↔ ∃ q ∈ ps, b = ([q.1], [q.2]) := by
  simp only [singles, List.mem_map]
  constructor
  · rintro ⟨q, hq, rfl⟩; exact ⟨q, hq, rfl⟩
  · rintro ⟨q, hq, rfl⟩; exact ⟨q, hq, rfl⟩

theorem singles_append (a b : List Pair) : singles (a ++ b) = singles a ++ singles b := by
  simp [singles]

theorem blockRows_singles (ps : List Pair) : blockRows (singles ps) = rowsOf ps := by
  induction ps with
  | nil => rfl
  | cons a t ih => simp_all [blockRows, singles, rowsOf]

theorem blockCols_singles (ps : List Pair) : blockCols (singles ps) = colsOf ps := by
  induction ps with
  | nil => rfl
  | cons a t ih => simp_all [blockCols, singles, colsOf]

theorem step1_spec {im : Inc} {ri ci : List Nat} (hri : ri.Nodup) (hci : ci.Nodup)
    (hpm : HasPerfectMatching im ri ci) : PreSpec im ri ci (step1 im ri ci) := by
  obtain ⟨P, hP⟩ := hpm
  -- names for the stages
  have hf_def : (step1 im ri ci).first = firstPairs im ri ci := rfl
  generalize hf : firstPairs im ri ci = f at hf_def
  have hl_def : (step1 im ri ci).last = lastPairs im (removeAll ri (rowsOf f)) (removeAll ci (colsOf f)) := by
    simp only [step1, hf]
  generalize hri1e : removeAll ri (rowsOf f) = ri1 at hl_def
  generalize hci1e : removeAll ci (colsOf f) = ci1 at hl_def
  generalize hl : lastPairs im ri1 ci1 = l at hl_def
  have hri_def : (step1 im ri ci).ri = removeAll ri1 (rowsOf l) := by
    simp only [step1, hf, hri1e, hci1e, hl]
  have hci_def : (step1 im ri ci).ci = removeAll ci1 (colsOf l) := by
    simp only [step1, hf, hri1e, hci1e, hl]
  -- facts about the first stage
  have memf : ∀ q, q ∈ f ↔ q.1 ∈ ri ∧ rowCols im ci q.1 = [q.2] := fun q => by rw [← hf]; exact mem_firstPairs
  have hfP : ∀ P', IsPM im ri ci P' → ∀ q ∈ f, q ∈ P' := fun P' hP' q hq => by
    rw [← hf] at hq; exact firstPairs_sub_pm hP' hq
  have hrf_nd : (rowsOf f).Nodup := by
    rw [← hf]; exact (rowsOf_firstPairs_sublist im ri ci).nodup hri
  have hf_nd : f.Nodup := List.Nodup.of_map _ hrf_nd
  have hcf_nd : (colsOf f).Nodup :=
    List.Nodup.map_on (fun x hx y hy e => hP.snd_inj hci (hfP P hP x hx) (hfP P hP y hy) e) hf_nd
  have hri1 : ri1.Nodup := by rw [← hri1e]; exact hri.filter _
  have hci1 : ci1.Nodup := by rw [← hci1e]; exact hci.filter _
  have hP1 : ∀ P', IsPM im ri ci P' → IsPM im ri1 ci1 (P'.filter fun p => !f.contains p) := fun P' hP' => by
    rw [← hri1e, ← hci1e]; exact hP'.remove hri hci (hfP P' hP')
  -- facts about the second stage
  have meml : ∀ q, q ∈ l ↔ q.2 ∈ ci1 ∧ colRows im ri1 q.2 = [q.1] := fun q => by rw [← hl]; exact mem_lastPairs
  have hlP : ∀ P', IsPM im ri1 ci1 P' → ∀ q ∈ l, q ∈ P' := fun P' hP' q hq => by
    rw [← hl] at hq; exact lastPairs_sub_pm hP' hq
  have hcl_nd : (colsOf l).Nodup := by
    rw [← hl]; exact (colsOf_lastPairs_sublist im ri1 ci1).nodup hci1
  have hl_nd : l.Nodup := List.Nodup.of_map _ hcl_nd
  have hrl_nd : (rowsOf l).Nodup :=
    List.Nodup.map_on (fun x hx y hy e =>
      (hP1 P hP).fst_inj hri1 (hlP _ (hP1 P hP) x hx) (hlP _ (hP1 P hP) y hy) e) hl_nd
  have mem_ri1 : ∀ x, x ∈ ri1 ↔ x ∈ ri ∧ x ∉ rowsOf f := fun x => by rw [← hri1e]; exact mem_removeAll
  have mem_ci1 : ∀ x, x ∈ ci1 ↔ x ∈ ci ∧ x ∉ colsOf f := fun x => by rw [← hci1e]; exact mem_removeAll
  refine ⟨?_, ?_, ?_, ?_, ?_⟩
  · -- rows
    rw [hf_def, hl_def, hri_def]
    have h1 : (rowsOf f ++ ri1).Perm ri := by
      rw [← hri1e]
      exact split_perm hri hrf_nd (fun x hx => by
        obtain ⟨q, hq, rfl⟩ := List.mem_map.1 hx
        exact ((memf q).1 hq).1)
    have h2 : (rowsOf l ++ removeAll ri1 (rowsOf l)).Perm ri1 :=
      split_perm hri1 hrl_nd (fun x hx => by
        obtain ⟨q, hq, rfl⟩ := List.mem_map.1 hx
        exact (colRows_single ((meml q).1 hq).2).1)
    have h3 : (rowsOf f ++ removeAll ri1 (rowsOf l) ++ rowsOf l).Perm (rowsOf f ++ (rowsOf l ++ removeAll ri1 (rowsOf l))) := by
      rw [List.append_assoc]
      exact List.Perm.append_left _ List.perm_append_comm
    exact h3.trans ((List.Perm.append_left _ h2).trans h1)
  · -- columns
    rw [hf_def, hl_def, hci_def]
    have h1 : (colsOf f ++ ci1).Perm ci := by
      rw [← hci1e]
      exact split_perm hci hcf_nd (fun x hx => by
        obtain ⟨q, hq, rfl⟩ := List.mem_map.1 hx
        exact (rowCols_single ((memf q).1 hq).2).1)
    have h2 : (colsOf l ++ removeAll ci1 (colsOf l)).Perm ci1 :=
      split_perm hci1 hcl_nd (fun x hx => by
        obtain ⟨q, hq, rfl⟩ := List.mem_map.1 hx
        exact ((meml q).1 hq).1)
    have h3 : (colsOf f ++ removeAll ci1 (colsOf l) ++ colsOf l).Perm (colsOf f ++ (colsOf l ++ removeAll ci1 (colsOf l))) := by
      rw [List.append_assoc]
      exact List.Perm.append_left _ List.perm_append_comm
    exact h3.trans ((List.Perm.append_left _ h2).trans h1)
  · intro P' hP'
    rw [hri_def, hci_def]
    exact ⟨_, (hP1 P' hP').remove hri1 hci1 (hlP _ (hP1 P' hP')),
      fun q hq => (List.mem_filter.1 (List.mem_filter.1 hq).1).1⟩
  · intro P' hP' q hq
    rw [hf_def, hl_def] at hq
    rcases List.mem_append.1 hq with hq | hq
    · exact hfP P' hP' q hq
    · exact (List.mem_filter.1 (hlP _ (hP1 P' hP') q hq)).1
  · -- lower block-triangularity
    intro mid hmid hpw
    rw [hf_def, hl_def]
    rw [hri_def, hci_def] at hmid
    -- (3)/(5a): a first pair has no incidence in any column that survived the first stage
    have first_vs : ∀ q ∈ f, ∀ c' ∈ ci1, im q.1 c' = false := by
      intro q hq c' hc'
      obtain ⟨hc'ci, hc'nf⟩ := (mem_ci1 c').1 hc'
      by_contra hne
      have hi : im q.1 c' = true := by simpa using hne
      have := (rowCols_single ((memf q).1 hq).2).2.2 c' hc'ci hi
      exact hc'nf (this ▸ List.mem_map.2 ⟨q, hq, rfl⟩)
    rw [List.pairwise_append, List.pairwise_append]
    refine ⟨⟨?_, hpw, ?_⟩, ?_, ?_⟩
    · -- (1) among first pairs
      unfold singles
      rw [List.pairwise_map]
      apply hf_nd.pairwise_of_forall_ne
      intro x hx y hy hxy r hr c hc
      simp only [List.mem_singleton] at hr hc
      subst hr hc
      by_contra hne
      have hi : im x.1 y.2 = true := by simpa using hne
      have hy2 : y.2 ∈ ci := (rowCols_single ((memf y).1 hy).2).1
      have := (rowCols_single ((memf x).1 hx).2).2.2 _ hy2 hi
      exact hxy (hP.snd_inj hci (hfP P hP x hx) (hfP P hP y hy) this.symm)
    · -- (3) first pairs against mid
      intro a ha b hb r hr c hc
      obtain ⟨q, hq, rfl⟩ := mem_singles.1 ha
      simp only [List.mem_singleton] at hr
      subst hr
      exact first_vs q hq c (mem_removeAll.1 ((hmid b hb).2 c hc)).1
    · -- (4) among last pairs
      unfold singles
      rw [List.pairwise_map]
      apply hl_nd.pairwise_of_forall_ne
      intro x hx y hy hxy r hr c hc
      simp only [List.mem_singleton] at hr hc
      subst hr hc
      by_contra hne
      have hi : im x.1 y.2 = true := by simpa using hne
      have hx1 : x.1 ∈ ri1 := (colRows_single ((meml x).1 hx).2).1
      have := (colRows_single ((meml y).1 hy).2).2.2 _ hx1 hi
      exact hxy ((hP1 P hP).fst_inj hri1 (hlP _ (hP1 P hP) x hx) (hlP _ (hP1 P hP) y hy) this)
    · -- (5) everything earlier against last pairs
      intro a ha b hb r hr c hc
      obtain ⟨q, hq, rfl⟩ := mem_singles.1 hb
      simp only [List.mem_singleton] at hc
      subst hc
      have hq' := (meml q).1 hq
      rcases List.mem_append.1 ha with ha | ha
      · obtain ⟨q0, hq0, rfl⟩ := mem_singles.1 ha
        simp only [List.mem_singleton] at hr
        subst hr
        exact first_vs q0 hq0 _ hq'.1
      · obtain ⟨hr1, hrnl⟩ := mem_removeAll.1 ((hmid a ha).1 r hr)
        by_contra hne
        have hi : im r q.2 = true := by simpa using hne
        have := (colRows_single hq'.2).2.2 r hr1 hi
        exact hrnl (this ▸ List.mem_map.2 ⟨q, hq, rfl⟩)

/-! ### the recursion -/

theorem PreSpec.nodup {im : Inc} {ri ci : List Nat} {p : Pre} (h : PreSpec im ri ci p)
    (hri : ri.Nodup) (hci : ci.Nodup) : p.ri.Nodup ∧ p.ci.Nodup := by
  have h1 := (h.rows_perm.nodup_iff).2 hri
  have h2 := (h.cols_perm.nodup_iff).2 hci
  rw [List.nodup_append] at h1 h2
  exact ⟨(List.nodup_append.1 h1.1).2.1, (List.nodup_append.1 h2.1).2.1⟩

theorem PreSpec.hasPM {im : Inc} {ri ci : List Nat} {p : Pre} (h : PreSpec im ri ci p)
    (hpm : HasPerfectMatching im ri ci) : HasPerfectMatching im p.ri p.ci := by
  obtain ⟨P, hP⟩ := hpm
  obtain ⟨P', hP', _⟩ := h.inner_pm P hP
  exact ⟨P', hP'⟩

theorem PreSpec.comp {im : Inc} {ri ci : List Nat} {s p' : Pre} (hs : PreSpec im ri ci s)
    (hp : PreSpec im s.ri s.ci p') :
    PreSpec im ri ci { first := s.first ++ p'.first, last := p'.last ++ s.last, ri := p'.ri, ci := p'.ci } := by
  refine ⟨?_, ?_, ?_, ?_, ?_⟩
  · simp only [rowsOf, List.map_append, List.append_assoc]
    have := hp.rows_perm
    simp only [rowsOf, List.append_assoc] at this
    have h2 := hs.rows_perm
    simp only [rowsOf, List.append_assoc] at h2
    have h3 := ((this.append_right (List.map Prod.fst s.last)).append_left (List.map Prod.fst s.first)).trans h2
    simpa only [List.append_assoc] using h3
  · simp only [colsOf, List.map_append, List.append_assoc]
    have := hp.cols_perm
    simp only [colsOf, List.append_assoc] at this
    have h2 := hs.cols_perm
    simp only [colsOf, List.append_assoc] at h2
    have h3 := ((this.append_right (List.map Prod.snd s.last)).append_left (List.map Prod.snd s.first)).trans h2
    simpa only [List.append_assoc] using h3
  · intro P hP
    obtain ⟨P1, hP1, hsub1⟩ := hs.inner_pm P hP
    obtain ⟨P2, hP2, hsub2⟩ := hp.inner_pm P1 hP1
    exact ⟨P2, hP2, fun q hq => hsub1 q (hsub2 q hq)⟩
  · intro P hP q hq
    obtain ⟨P1, hP1, hsub1⟩ := hs.inner_pm P hP
    simp only [List.mem_append] at hq
    rcases hq with (hq | hq) | (hq | hq)
    · exact hs.sub_pm P hP q (List.mem_append_left _ hq)
    · exact hsub1 q (hp.sub_pm P1 hP1 q (List.mem_append_left _ hq))
    · exact hsub1 q (hp.sub_pm P1 hP1 q (List.mem_append_right _ hq))
    · exact hs.sub_pm P hP q (List.mem_append_right _ hq)
  · intro mid hmid hpw
    have h1 := hp.lbt mid hmid hpw
    have hsubr : ∀ x, x ∈ rowsOf p'.first ++ p'.ri ++ rowsOf p'.last → x ∈ s.ri :=
      fun x hx => hp.rows_perm.subset hx
    have hsubc : ∀ x, x ∈ colsOf p'.first ++ p'.ci ++ colsOf p'.last → x ∈ s.ci :=
      fun x hx => hp.cols_perm.subset hx
    have h2 := hs.lbt (singles p'.first ++ mid ++ singles p'.last) (by
      intro b hb
      simp only [List.mem_append] at hb
      rcases hb with (hb | hb) | hb
      · obtain ⟨q, hq, rfl⟩ := mem_singles.1 hb
        refine ⟨fun r hr => ?_, fun c hc => ?_⟩
        · simp only [List.mem_singleton] at hr; subst hr
          exact hsubr _ (by simp only [List.mem_append, rowsOf, List.mem_map]; exact Or.inl (Or.inl ⟨q, hq, rfl⟩))
        · simp only [List.mem_singleton] at hc; subst hc
          exact hsubc _ (by simp only [List.mem_append, colsOf, List.mem_map]; exact Or.inl (Or.inl ⟨q, hq, rfl⟩))
      · refine ⟨fun r hr => ?_, fun c hc => ?_⟩
        · exact hsubr _ (by simp only [List.mem_append]; exact Or.inl (Or.inr ((hmid b hb).1 r hr)))
        · exact hsubc _ (by simp only [List.mem_append]; exact Or.inl (Or.inr ((hmid b hb).2 c hc)))
      · obtain ⟨q, hq, rfl⟩ := mem_singles.1 hb
        refine ⟨fun r hr => ?_, fun c hc => ?_⟩
        · simp only [List.mem_singleton] at hr; subst hr
          exact hsubr _ (by simp only [List.mem_append, rowsOf, List.mem_map]; exact Or.inr ⟨q, hq, rfl⟩)
        · simp only [List.mem_singleton] at hc; subst hc
          exact hsubc _ (by simp only [List.mem_append, colsOf, List.mem_map]; exact Or.inr ⟨q, hq, rfl⟩)) h1
    simpa only [singles_append, List.append_assoc] using h2

theorem prefetch_spec (im : Inc) : ∀ (n : Nat) (ri ci : List Nat), ri.length * ci.length = n →
    ri.Nodup → ci.Nodup → HasPerfectMatching im ri ci → PreSpec im ri ci (prefetch im ri ci) := by
  intro n
  induction n using Nat.strongRecOn with
  | _ n ih =>
    intro ri ci hn hri hci hpm
    have hs := step1_spec hri hci hpm
    rw [prefetch_eq]
    split
    · rename_i h
      have hnd := hs.nodup hri hci
      exact hs.comp (ih _ (hn ▸ h) _ _ rfl hnd.1 hnd.2 (hs.hasPM hpm))
    · exact hs

theorem removeAll_nil (l : List Nat) : removeAll l [] = l := by
  simp [removeAll]

/-- when `prefetch` returns, no row of the inner part has a single incidence within the inner part
(the guard `im.size < initial_size` stops the recursion only at a fixed point) -/
theorem prefetch_stuck (im : Inc) : ∀ (n : Nat) (ri ci : List Nat), ri.length * ci.length = n →
    ri.Nodup → ci.Nodup → HasPerfectMatching im ri ci →
    firstPairs im (prefetch im ri ci).ri (prefetch im ri ci).ci = [] := by
  intro n
  induction n using Nat.strongRecOn with
  | _ n ih =>
    intro ri ci hn hri hci hpm
    have hs := step1_spec hri hci hpm
    rw [prefetch_eq]
    split
    · rename_i h
      have hnd := hs.nodup hri hci
      exact ih _ (hn ▸ h) _ _ rfl hnd.1 hnd.2 (hs.hasPM hpm)
    · rename_i h
      have ha := hpm.length_eq
      have hb := (hs.hasPM hpm).length_eq
      have hlen := hs.rows_perm.length_eq
      simp only [List.length_append, rowsOf, List.length_map] at hlen
      have hge : ri.length ≤ (step1 im ri ci).ri.length := by
        by_contra hlt
        have hlt : (step1 im ri ci).ri.length < ri.length := by omega
        apply h
        rw [← hb, ← ha]
        exact Nat.mul_self_lt_mul_self hlt
      have hf0 : (step1 im ri ci).first = [] := List.eq_nil_of_length_eq_zero (by omega)
      have hl0 : (step1 im ri ci).last = [] := List.eq_nil_of_length_eq_zero (by omega)
      have hf : firstPairs im ri ci = [] := hf0
      have hl : lastPairs im ri ci = [] := by
        have : (step1 im ri ci).last = lastPairs im ri ci := by
          simp only [step1, hf, rowsOf, colsOf, List.map_nil, removeAll_nil]
        rw [← this]; exact hl0
      have hri' : (step1 im ri ci).ri = ri := by
        simp only [step1, hf, hl, rowsOf, colsOf, List.map_nil, removeAll_nil]
      have hci' : (step1 im ri ci).ci = ci := by
        simp only [step1, hf, hl, rowsOf, colsOf, List.map_nil, removeAll_nil]
      rw [hri', hci']; exact hf

/-! ### cutting the inner part into blocks -/

theorem cutOk_iff {im : Inc} {ri ci : List Nat} {i : Nat} :
    cutOk im ri ci i = true ↔ ∀ r ∈ ri.take i, ∀ c ∈ ci.drop i, im r c = false := by
  simp [cutOk]

/-- cutting at an empty upper-right corner splits a perfect matching: by counting, the rows of the
leading block are matched exactly onto its columns -/
theorem cut_pm {im : Inc} {ri ci : List Nat} {i : Nat} (hri : ri.Nodup) (hci : ci.Nodup)
    (hpm : HasPerfectMatching im ri ci) (hcut : cutOk im ri ci i = true) (hi : i ≤ ri.length) :
    HasPerfectMatching im (ri.take i) (ci.take i) ∧ HasPerfectMatching im (ri.drop i) (ci.drop i) := by
  obtain ⟨P, hP⟩ := hpm
  have hlen := hP.length_eq
  rw [cutOk_iff] at hcut
  let g : Pair → Bool := fun p => (ri.take i).contains p.1
  have hsplit := List.filter_append_perm g P
  -- rows
  have hrA : (rowsOf (P.filter g)).Perm (ri.take i) := by
    have h1 : rowsOf (P.filter g) = (rowsOf P).filter fun x => (ri.take i).contains x := by
      simp only [rowsOf, List.filter_map]; rfl
    rw [h1]
    refine (hP.1.filter _).trans ?_
    rw [List.perm_ext_iff_of_nodup (hri.filter _) (hri.sublist (List.take_sublist _ _))]
    intro a
    simp only [List.mem_filter, List.contains_iff_mem]
    exact ⟨fun h => h.2, fun h => ⟨List.mem_of_mem_take h, h⟩⟩
  have hrB : (rowsOf (P.filter fun p => !g p)).Perm (ri.drop i) := by
    have h1 : rowsOf (P.filter fun p => !g p) = (rowsOf P).filter fun x => !(ri.take i).contains x := by
      simp only [rowsOf, List.filter_map]; rfl
    rw [h1]
    refine (hP.1.filter _).trans ?_
    rw [List.perm_ext_iff_of_nodup (hri.filter _) (hri.sublist (List.drop_sublist _ _))]
    intro a
    rw [List.mem_filter]
    have hdisj := List.disjoint_take_drop hri (Nat.le_refl i)
    constructor
    · rintro ⟨h1, h2⟩
      have h2' : a ∉ ri.take i := by simpa using h2
      have : a ∈ ri.take i ++ ri.drop i := by rw [List.take_append_drop]; exact h1
      rcases List.mem_append.1 this with h | h
      · exact absurd h h2'
      · exact h
    · intro h
      refine ⟨List.mem_of_mem_drop h, ?_⟩
      have : a ∉ ri.take i := fun h' => hdisj h' h
      simpa using this
  -- columns of the leading part
  have hcA_sub : ∀ c ∈ colsOf (P.filter g), c ∈ ci.take i := by
    intro c hc
    obtain ⟨p, hp, rfl⟩ := List.mem_map.1 hc
    obtain ⟨hpP, hg⟩ := List.mem_filter.1 hp
    have hp1 : p.1 ∈ ri.take i := by simpa [g] using hg
    have hp2 : p.2 ∈ ci := hP.2.1.subset (List.mem_map.2 ⟨p, hpP, rfl⟩)
    have : p.2 ∈ ci.take i ++ ci.drop i := by rw [List.take_append_drop]; exact hp2
    rcases List.mem_append.1 this with h | h
    · exact h
    · have := hcut _ hp1 _ h
      rw [hP.2.2 p hpP] at this
      exact absurd this (by simp)
  have hcP_nd : (colsOf P).Nodup := (hP.2.1.nodup_iff).2 hci
  have hcA_nd : (colsOf (P.filter g)).Nodup :=
    List.Nodup.sublist (List.Sublist.map _ List.filter_sublist) hcP_nd
  have hcA_len : (ci.take i).length ≤ (colsOf (P.filter g)).length := by
    have h1 : (colsOf (P.filter g)).length = (rowsOf (P.filter g)).length := by
      simp [colsOf, rowsOf]
    rw [h1, hrA.length_eq]
    simp only [List.length_take]
    omega
  have hcA : (colsOf (P.filter g)).Perm (ci.take i) :=
    (List.subperm_of_subset hcA_nd hcA_sub).perm_of_length_le hcA_len
  have hcB : (colsOf (P.filter fun p => !g p)).Perm (ci.drop i) := by
    have h1 : (colsOf (P.filter g) ++ colsOf (P.filter fun p => !g p)).Perm (ci.take i ++ ci.drop i) := by
      rw [List.take_append_drop]
      have := hsplit.map Prod.snd
      rw [List.map_append] at this
      exact this.trans hP.2.1
    exact (List.perm_append_left_iff _).1 ((hcA.symm.append_right _).trans h1)
  exact ⟨⟨_, hrA, hcA, fun p hp => hP.2.2 p (List.mem_filter.1 hp).1⟩,
    ⟨_, hrB, hcB, fun p hp => hP.2.2 p (List.mem_filter.1 hp).1⟩⟩

theorem genInner_eq (im : Inc) (ri ci : List Nat) :
    genInner im ri ci =
      if ri.length * ci.length = 0 then .ok []
      else match findCut im ri ci with
        | none => .error .stopIteration
        | some i =>
          match genInner im (ri.drop i) (ci.drop i) with
          | .error e => .error e
          | .ok rest => .ok ((ri.take i, ci.take i) :: rest) := by
  rw [genInner]
  split
  · rfl
  · split
    · simp_all
    · rename_i i h
      simp only [h]
      rfl

/-- what `_generate_inner_blocks` delivers on an inner part that has a perfect matching -/
structure InnerSpec (im : Inc) (ri ci : List Nat) (bs : List Block) : Prop where
  rows : blockRows bs = ri
  cols : blockCols bs = ci
  square : ∀ b ∈ bs, b.1.length = b.2.length
  lbt : bs.Pairwise (NoInc im)
  pm : ∀ b ∈ bs, HasPerfectMatching im b.1 b.2

theorem genInner_spec (im : Inc) : ∀ (n : Nat) (ri ci : List Nat), ri.length = n → ri.Nodup → ci.Nodup →
    HasPerfectMatching im ri ci → ∃ bs, genInner im ri ci = .ok bs ∧ InnerSpec im ri ci bs := by
  intro n
  induction n using Nat.strongRecOn with
  | _ n ih =>
    intro ri ci hn hri hci hpm
    have hlen := hpm.length_eq
    rw [genInner_eq]
    split
    · rename_i h0
      have : ri.length = 0 := by
        rcases Nat.mul_eq_zero.1 h0 with h | h <;> omega
      have hr : ri = [] := List.eq_nil_of_length_eq_zero this
      have hc : ci = [] := List.eq_nil_of_length_eq_zero (by omega)
      subst hr hc
      exact ⟨[], rfl, ⟨rfl, rfl, by simp, List.Pairwise.nil, by simp⟩⟩
    · rename_i h0
      have hpos : 1 ≤ ri.length := by
        rcases Nat.eq_zero_or_pos ri.length with h | h
        · rw [h] at h0; simp at h0
        · exact h
      cases hfc : findCut im ri ci with
      | none =>
        exfalso
        have := (List.find?_eq_none.1 hfc) ri.length (by rw [List.mem_range'_1]; omega)
        apply this
        rw [cutOk_iff]
        intro r _ c hc
        rw [List.drop_of_length_le (by omega)] at hc
        exact absurd hc (by simp)
      | some i =>
        have hi := findCut_pos hfc
        have hcut : cutOk im ri ci i = true := List.find?_some hfc
        obtain ⟨hpmA, hpmB⟩ := cut_pm hri hci hpm hcut hi.2
        obtain ⟨rest, hrest, hspec⟩ := ih (n - i) (by omega) (ri.drop i) (ci.drop i)
          (by simp only [List.length_drop]; omega)
          (hri.sublist (List.drop_sublist _ _)) (hci.sublist (List.drop_sublist _ _)) hpmB
        simp only [hrest]
        refine ⟨_, rfl, ⟨?_, ?_, ?_, ?_, ?_⟩⟩
        · simp only [blockRows, List.flatMap_cons]
          have := hspec.rows
          simp only [blockRows] at this
          rw [this, List.take_append_drop]
        · simp only [blockCols, List.flatMap_cons]
          have := hspec.cols
          simp only [blockCols] at this
          rw [this, List.take_append_drop]
        · intro b hb
          rcases List.mem_cons.1 hb with rfl | hb
          · simp only [List.length_take]; omega
          · exact hspec.square b hb
        · refine List.Pairwise.cons ?_ hspec.lbt
          intro b' hb' r hr c hc
          have hc' : c ∈ ci.drop i := by
            rw [← hspec.cols]
            simp only [blockCols, List.mem_flatMap]
            exact ⟨b', hb', hc⟩
          exact (cutOk_iff.1 hcut) r hr c hc'
        · intro b hb
          rcases List.mem_cons.1 hb with rfl | hb
          · exact hpmA
          · exact hspec.pm b hb

/-! ### re-ordering by a position array -/

theorem filterMap_getElem?_range (l : List Nat) :
    (List.range l.length).filterMap (fun i => l[i]?) = l := by
  induction l with
  | nil => rfl
  | cons a t ih =>
    rw [List.length_cons, List.range_succ_eq_map, List.filterMap_cons]
    simp only [List.getElem?_cons_zero, List.filterMap_map]
    congr 1

theorem applyPerm_perm {p l : List Nat} (hp : p.Perm (List.range l.length)) : (applyPerm p l).Perm l := by
  have := hp.filterMap (fun i => l[i]?)
  rw [filterMap_getElem?_range] at this
  exact this

/-! ### `blaze` -/

theorem HasPerfectMatching.perm {im : Inc} {r r' c c' : List Nat} (h : HasPerfectMatching im r c)
    (hr : r.Perm r') (hc : c.Perm c') : HasPerfectMatching im r' c' := by
  obtain ⟨P, h1, h2, h3⟩ := h
  exact ⟨P, h1.trans hr, h2.trans hc, h3⟩

theorem blockRows_append (a b : List Block) : blockRows (a ++ b) = blockRows a ++ blockRows b := by
  simp [blockRows]

theorem blockCols_append (a b : List Block) : blockCols (a ++ b) = blockCols a ++ blockCols b := by
  simp [blockCols]

/-- everything the property says about `blaze`, on positions -/
structure BlazeSpec (im : Inc) (n : Nat) (o : BlazeOut) : Prop where
  shape : ∃ inner, o.blocks = singles o.pre.first ++ inner ++ singles o.pre.last ∧
    InnerSpec im o.innerRows o.innerCols inner
  pre_eq : o.pre = prefetch im (List.range n) (List.range n)
  rows_perm : (blockRows o.blocks).Perm (List.range n)
  cols_perm : (blockCols o.blocks).Perm (List.range n)
  square : ∀ b ∈ o.blocks, b.1.length = b.2.length
  lbt : o.blocks.Pairwise (NoInc im)
  pm : ∀ b ∈ o.blocks, HasPerfectMatching im b.1 b.2

theorem blazePos_spec (im : Inc) (n : Nat) (rp cp : List Nat)
    (hpm : HasPerfectMatching im (List.range n) (List.range n))
    (hrp : rp.Perm (List.range (prefetch im (List.range n) (List.range n)).ri.length))
    (hcp : cp.Perm (List.range (prefetch im (List.range n) (List.range n)).ci.length)) :
    ∃ o, blazePos im n n rp cp = .ok o ∧ BlazeSpec im n o := by
  have hs := prefetch_spec im _ (List.range n) (List.range n) rfl List.nodup_range List.nodup_range hpm
  have hnd := hs.nodup List.nodup_range List.nodup_range
  have hin := hs.hasPM hpm
  unfold blazePos
  generalize hp : prefetch im (List.range n) (List.range n) = p at *
  simp only []
  generalize hri' : (if p.ri.length * p.ci.length ≠ 0 then applyPerm rp p.ri else p.ri) = ri'
  generalize hci' : (if p.ri.length * p.ci.length ≠ 0 then applyPerm cp p.ci else p.ci) = ci'
  have hr : ri'.Perm p.ri := by
    rw [← hri']; split
    · exact applyPerm_perm hrp
    · exact List.Perm.refl _
  have hc : ci'.Perm p.ci := by
    rw [← hci']; split
    · exact applyPerm_perm hcp
    · exact List.Perm.refl _
  have hnr : ri'.Nodup := (hr.nodup_iff).2 hnd.1
  have hnc : ci'.Nodup := (hc.nodup_iff).2 hnd.2
  obtain ⟨inner, hgen, hsp⟩ := genInner_spec im _ ri' ci' rfl hnr hnc (hin.perm hr.symm hc.symm)
  obtain ⟨P, hP⟩ := hpm
  rw [hgen]
  refine ⟨_, rfl, ⟨⟨inner, rfl, hsp⟩, hp.symm, ?_, ?_, ?_, ?_, ?_⟩⟩
  · simp only [blockRows_append, blockRows_singles, hsp.rows]
    exact ((hr.append_left _).append_right _).trans hs.rows_perm
  · simp only [blockCols_append, blockCols_singles, hsp.cols]
    exact ((hc.append_left _).append_right _).trans hs.cols_perm
  · intro b hb
    simp only [List.mem_append] at hb
    rcases hb with (hb | hb) | hb
    · obtain ⟨q, _, rfl⟩ := mem_singles.1 hb; rfl
    · exact hsp.square b hb
    · obtain ⟨q, _, rfl⟩ := mem_singles.1 hb; rfl
  · refine hs.lbt inner (fun b hb => ⟨fun r hr' => ?_, fun c hc' => ?_⟩) hsp.lbt
    · refine hr.subset ?_
      rw [← hsp.rows]
      exact List.mem_flatMap.2 ⟨b, hb, hr'⟩
    · refine hc.subset ?_
      rw [← hsp.cols]
      exact List.mem_flatMap.2 ⟨b, hb, hc'⟩
  · intro b hb
    have single : ∀ q ∈ p.first ++ p.last, HasPerfectMatching im [q.1] [q.2] := fun q hq =>
      ⟨[q], by simp [rowsOf], by simp [colsOf], fun x hx => by
        rw [List.mem_singleton.1 hx]; exact hP.2.2 q (hs.sub_pm P hP q hq)⟩
    simp only [List.mem_append] at hb
    rcases hb with (hb | hb) | hb
    · obtain ⟨q, hq, rfl⟩ := mem_singles.1 hb
      exact single q (List.mem_append_left _ hq)
    · exact hsp.pm b hb
    · obtain ⟨q, hq, rfl⟩ := mem_singles.1 hb
      exact single q (List.mem_append_right _ hq)

/-- index form of lower block-triangularity: an incidence of a row of block `k` lies in a column of
block `k` or of an earlier block -/
theorem lbt_same_or_earlier {im : Inc} {bs : List Block} (h : bs.Pairwise (NoInc im)) {k : Nat}
    (hk : k < bs.length) {r c : Nat} (hr : r ∈ bs[k].1) (hc : c ∈ blockCols bs) (hi : im r c = true) :
    c ∈ blockCols (bs.take (k + 1)) := by
  have h' : (bs.take (k + 1) ++ bs.drop (k + 1)).Pairwise (NoInc im) := by
    rw [List.take_append_drop]; exact h
  have hc' : c ∈ blockCols (bs.take (k + 1) ++ bs.drop (k + 1)) := by
    rw [List.take_append_drop]; exact hc
  rw [List.pairwise_append] at h'
  rw [blockCols_append, List.mem_append] at hc'
  rcases hc' with hc' | hc'
  · exact hc'
  · exfalso
    obtain ⟨b', hb', hcb'⟩ := List.mem_flatMap.1 hc'
    have hbk : bs[k] ∈ bs.take (k + 1) := by
      rw [List.mem_take_iff_getElem]
      exact ⟨k, by simp only [Nat.lt_min]; omega, rfl⟩
    have := h'.2.2 _ hbk _ hb' r hr c hcb'
    rw [hi] at this
    exact absurd this (by simp)

/-! ### Sequential models -/

theorem dedup_of_nodup {l : List Nat} (h : l.Nodup) : dedup l = l := by
  induction l with
  | nil => rfl
  | cons a t ih =>
    rw [List.nodup_cons] at h
    simp only [dedup, ih h.2]
    congr 1
    rw [List.filter_eq_self]
    intro y hy
    have : y ≠ a := fun e => h.1 (e ▸ hy)
    simpa using this

/-- every zero-shift LHS name an equation reads is its own LHS or the LHS of an earlier equation -/
def SeqValid (m : SModel) : Prop :=
  ∀ k (hk : k < m.length), ∀ v ∈ m[k].reads, v ∈ m.map (·.lhs) →
    v = m[k].lhs ∨ ∃ j, ∃ hj : j < m.length, j < k ∧ m[j].lhs = v

theorem lhsNames_of_nodup {m : SModel} (hu : (m.map (·.lhs)).Nodup) : lhsNames m = m.map (·.lhs) :=
  dedup_of_nodup hu

theorem seqInc_eq {m : SModel} (hu : (m.map (·.lhs)).Nodup) {i j : Nat} (hi : i < m.length)
    (hj : j < m.length) :
    seqInc m i j = (m[i].lhs == m[j].lhs || m[i].reads.contains m[j].lhs) := by
  unfold seqInc
  rw [lhsNames_of_nodup hu]
  simp [List.getElem?_eq_getElem hi, hj]

theorem filterMap_getElem?_range' {α : Type} (l : List α) :
    (List.range l.length).filterMap (fun i => l[i]?) = l := by
  induction l with
  | nil => rfl
  | cons a t ih =>
    rw [List.length_cons, List.range_succ_eq_map, List.filterMap_cons]
    simp only [List.getElem?_cons_zero, List.filterMap_map]
    congr 1

theorem reorder_eq_map (m : SModel) (π : List Nat) (hπ : ∀ i ∈ π, i < m.length) :
    π.filterMap (fun i => m[i]?) = π.map (fun i => m.getD i default) := by
  rw [← List.filterMap_eq_map]
  apply List.filterMap_congr
  intro i hi
  simp [List.getD_eq_getElem?_getD, List.getElem?_eq_getElem (hπ i hi)]

/-- an order along which the incidence matrix has nothing "above the diagonal" is a valid order -/
theorem valid_of_pairwise (m : SModel) (hu : (m.map (·.lhs)).Nodup) (π : List Nat)
    (hπ : ∀ i ∈ π, i < m.length) (hpw : π.Pairwise fun x y => seqInc m x y = false) :
    SeqValid (π.filterMap fun i => m[i]?) := by
  rw [reorder_eq_map m π hπ]
  intro k hk v hv hvl
  have hk' : k < π.length := by simpa using hk
  have ha : π[k] < m.length := hπ _ (List.getElem_mem hk')
  have hget : ∀ (j : Nat) (hj : j < π.length),
      (π.map fun i => m.getD i default)[j]'(by simpa using hj) = m[π[j]]'(hπ _ (List.getElem_mem hj)) := by
    intro j hj
    simp [List.getD_eq_getElem?_getD, List.getElem?_eq_getElem (hπ _ (List.getElem_mem hj))]
  rw [hget k hk'] at hv ⊢
  -- v is the LHS of some equation b of the original model, b = π[k']
  simp only [List.map_map, List.mem_map, Function.comp] at hvl
  obtain ⟨b, hbπ, hbv⟩ := hvl
  have hb : b < m.length := hπ b hbπ
  have hbv' : m[b].lhs = v := by
    simpa [List.getD_eq_getElem?_getD, List.getElem?_eq_getElem hb] using hbv
  obtain ⟨k', hk'', hk'e⟩ := List.mem_iff_getElem.1 hbπ
  subst hk'e
  have hinc : seqInc m π[k] π[k'] = true := by
    rw [seqInc_eq hu ha hb, hbv']
    simp only [Bool.or_eq_true, List.contains_iff_mem]
    exact Or.inr hv
  rcases Nat.lt_trichotomy k k' with hlt | heq | hgt
  · exfalso
    have := (List.pairwise_iff_getElem.1 hpw) k k' hk' hk'' hlt
    rw [hinc] at this
    exact absurd this (by simp)
  · left
    subst heq
    exact hbv'.symm
  · right
    refine ⟨k', by simpa using hk'', hgt, ?_⟩
    rw [hget k' hk'']
    exact hbv'

/-- with unique LHS names the incidence matrix of a Sequential model is square with a full diagonal,
hence has the diagonal as a perfect matching -/
theorem seq_diag_pm (m : SModel) (hu : (m.map (·.lhs)).Nodup) :
    IsPM (seqInc m) (List.range m.length) (List.range m.length) ((List.range m.length).map fun i => (i, i)) := by
  refine ⟨?_, ?_, ?_⟩
  · simp [rowsOf, List.map_map, Function.comp_def]
  · simp [colsOf, List.map_map, Function.comp_def]
  · intro p hp
    obtain ⟨i, hi, rfl⟩ := List.mem_map.1 hp
    have hi' : i < m.length := List.mem_range.1 hi
    rw [seqInc_eq hu hi' hi']
    simp

theorem isSequentialIm_iff {im : Inc} {n k : Nat} :
    isSequentialIm im n k = true ↔ ∀ i < n, ∀ j < k, i < j → im i j = false := by
  simp only [isSequentialIm, List.all_eq_true, List.mem_range, Bool.not_eq_true', Bool.and_eq_false_iff,
    decide_eq_false_iff_not]
  constructor
  · intro h i hi j hj hij
    rcases h i hi j hj with h' | h'
    · exact absurd hij h'
    · exact h'
  · intro h i hi j hj
    by_cases hij : i < j
    · exact Or.inr (h i hi j hj hij)
    · exact Or.inl hij

theorem isSequentialIm_pairwise {im : Inc} {n : Nat} (h : isSequentialIm im n n = true) :
    (List.range n).Pairwise fun x y => im x y = false := by
  rw [isSequentialIm_iff] at h
  refine List.Pairwise.imp_of_mem ?_ (List.pairwise_lt_range (n := n))
  intro a b ha hb hab
  exact h a (List.mem_range.1 ha) b (List.mem_range.1 hb) hab

/-- `Sequential.sequentialize` written out: the only way to an error is the permutation check -/
theorem sequentialize_eq (m : SModel) :
    sequentialize m =
      if isSequential m then (.ok (List.range m.length), m)
      else if (sequentializeStrictly (seqInc m) m.length (lhsNames m).length).isPerm (List.range m.length) then
        (.ok (sequentializeStrictly (seqInc m) m.length (lhsNames m).length),
          (sequentializeStrictly (seqInc m) m.length (lhsNames m).length).filterMap fun i => m[i]?)
      else (.error .notPermutation, m) := by
  unfold sequentialize reorderEquations
  split
  · rfl
  · split <;> rename_i h <;> simp [h]

/-- the incidence matrix has nothing above the diagonal along the order that `sequentialize_strictly`
returns (which may be incomplete: then `reorder_equations` rejects it) -/
theorem strict_order_pairwise (m : SModel) (hu : (m.map (·.lhs)).Nodup) :
    (sequentializeStrictly (seqInc m) m.length m.length).Pairwise fun x y => seqInc m x y = false := by
  have hP := seq_diag_pm m hu
  have hs := prefetch_spec (seqInc m) _ _ _ rfl List.nodup_range List.nodup_range ⟨_, hP⟩
  unfold sequentializeStrictly
  generalize prefetch (seqInc m) (List.range m.length) (List.range m.length) = p at *
  simp only []
  -- prefetched pairs are diagonal
  have hdiag : ∀ q ∈ p.first ++ p.last, q.2 = q.1 := by
    intro q hq
    obtain ⟨i, _, rfl⟩ := List.mem_map.1 (hs.sub_pm _ hP q hq)
    rfl
  have hl := hs.lbt [] (by simp) List.Pairwise.nil
  rw [List.append_nil, ← singles_append] at hl
  unfold singles at hl
  rw [List.pairwise_map] at hl
  have : rowsOf p.first ++ rowsOf p.last = (p.first ++ p.last).map Prod.fst := by
    simp [rowsOf]
  rw [this, List.pairwise_map]
  refine List.Pairwise.imp_of_mem ?_ hl
  intro a b _ hb hab
  have := hab a.1 (List.mem_singleton_self _) b.2 (List.mem_singleton_self _)
  rw [hdiag b hb] at this
  exact this

/-! ### completeness of the strict ordering -/

theorem filter_eq_singleton {l : List Nat} {p : Nat → Bool} {a : Nat} (hn : l.Nodup) (ha : a ∈ l)
    (hp : ∀ x ∈ l, p x = true ↔ x = a) : l.filter p = [a] := by
  induction l with
  | nil => simp at ha
  | cons b t ih =>
    rw [List.nodup_cons] at hn
    by_cases hba : b = a
    · subst hba
      have hpb : p b = true := (hp b List.mem_cons_self).2 rfl
      rw [List.filter_cons_of_pos hpb]
      congr 1
      rw [List.filter_eq_nil_iff]
      intro x hx hpx
      have := (hp x (List.mem_cons_of_mem _ hx)).1 hpx
      exact hn.1 (this ▸ hx)
    · have hpb : ¬ p b = true := fun h => hba ((hp b List.mem_cons_self).1 h)
      rw [List.filter_cons_of_neg hpb]
      have ha' : a ∈ t := by
        rcases List.mem_cons.1 ha with h | h
        · exact absurd h.symm hba
        · exact h
      exact ih hn.2 ha' (fun x hx => hp x (List.mem_cons_of_mem _ hx))

theorem exists_min_rank (rank : Nat → Nat) {l : List Nat} (hl : l ≠ []) :
    ∃ r ∈ l, ∀ x ∈ l, rank r ≤ rank x := by
  induction l with
  | nil => exact absurd rfl hl
  | cons a t ih =>
    by_cases ht : t = []
    · subst ht
      exact ⟨a, List.mem_cons_self, fun x hx => by
        have := List.mem_singleton.1 hx; subst this; exact Nat.le_refl _⟩
    · obtain ⟨r, hr, hmin⟩ := ih ht
      by_cases hra : rank r ≤ rank a
      · exact ⟨r, List.mem_cons_of_mem _ hr, fun x hx => by
          rcases List.mem_cons.1 hx with rfl | hx
          · exact hra
          · exact hmin x hx⟩
      · exact ⟨a, List.mem_cons_self, fun x hx => by
          rcases List.mem_cons.1 hx with rfl | hx
          · exact Nat.le_refl _
          · exact Nat.le_trans (by omega) (hmin x hx)⟩

/-- a valid order ranks the equations: whatever an equation reads (other than itself) ranks lower -/
theorem rank_of_valid_order (m : SModel) (hu : (m.map (·.lhs)).Nodup) (σ : List Nat)
    (hσ : σ.Perm (List.range m.length)) (hv : SeqValid (σ.filterMap fun i => m[i]?))
    {i j : Nat} (hi : i < m.length) (hj : j < m.length) (hij : i ≠ j) (hinc : seqInc m i j = true) :
    σ.idxOf j < σ.idxOf i := by
  have hmem : ∀ x ∈ σ, x < m.length := fun x hx => List.mem_range.1 (hσ.subset hx)
  have hnd : σ.Nodup := hσ.nodup_iff.2 List.nodup_range
  rw [reorder_eq_map m σ hmem] at hv
  have hiσ : i ∈ σ := hσ.symm.subset (List.mem_range.2 hi)
  have hjσ : j ∈ σ := hσ.symm.subset (List.mem_range.2 hj)
  have hk : σ.idxOf i < σ.length := List.idxOf_lt_length_iff.2 hiσ
  have hget : ∀ (a : Nat) (ha : a < σ.length),
      (σ.map fun i => m.getD i default)[a]'(by simpa using ha) = m[σ[a]]'(hmem _ (List.getElem_mem ha)) := by
    intro a ha
    simp [List.getD_eq_getElem?_getD, List.getElem?_eq_getElem (hmem _ (List.getElem_mem ha))]
  have hlhs_inj : ∀ a b (ha : a < m.length) (hb : b < m.length), m[a].lhs = m[b].lhs → a = b := by
    intro a b ha hb e
    have h1 : (m.map (·.lhs))[a]'(by simpa using ha) = (m.map (·.lhs))[b]'(by simpa using hb) := by
      simpa using e
    exact (List.Nodup.getElem_inj_iff hu).1 h1
  have hne : m[i].lhs ≠ m[j].lhs := fun e => hij (hlhs_inj i j hi hj e)
  rw [seqInc_eq hu hi hj] at hinc
  have hread : m[j].lhs ∈ m[i].reads := by
    simp only [Bool.or_eq_true, beq_iff_eq, List.contains_iff_mem] at hinc
    rcases hinc with h | h
    · exact absurd h hne
    · exact h
  have hσi : σ[σ.idxOf i]'hk = i := List.getElem_idxOf hk
  have := hv (σ.idxOf i) (by simpa using hk) (m[j].lhs) (by
    rw [hget _ hk]; simp only [hσi]; exact hread) (by
    simp only [List.map_map, List.mem_map, Function.comp]
    exact ⟨j, hjσ, by simp [List.getD_eq_getElem?_getD, List.getElem?_eq_getElem hj]⟩)
  rcases this with h | ⟨j', hj', hlt, hj'e⟩
  · exfalso
    rw [hget _ hk] at h
    simp only [hσi] at h
    exact hne h.symm
  · have hj'' : j' < σ.length := by simpa using hj'
    rw [hget j' hj''] at hj'e
    have : σ[j'] = j := hlhs_inj _ _ (hmem _ (List.getElem_mem hj'')) hj hj'e
    have : σ.idxOf j = j' := by rw [← this]; exact List.Nodup.idxOf_getElem hnd j' hj''
    omega


/-- Completeness for unique LHS names: if a valid order exists, `prefetch` peels the whole incidence
matrix, so the order returned by `sequentialize_strictly` is a permutation -/
theorem strict_order_perm_of_valid_order (m : SModel) (hu : (m.map (·.lhs)).Nodup) (σ : List Nat)
    (hσ : σ.Perm (List.range m.length)) (hv : SeqValid (σ.filterMap fun i => m[i]?)) :
    (sequentializeStrictly (seqInc m) m.length m.length).Perm (List.range m.length) := by
  have hP := seq_diag_pm m hu
  have hpm : HasPerfectMatching (seqInc m) (List.range m.length) (List.range m.length) := ⟨_, hP⟩
  have hs := prefetch_spec (seqInc m) _ _ _ rfl List.nodup_range List.nodup_range hpm
  have hstuck := prefetch_stuck (seqInc m) _ _ _ rfl List.nodup_range List.nodup_range hpm
  have hnd := hs.nodup List.nodup_range List.nodup_range
  unfold sequentializeStrictly
  generalize prefetch (seqInc m) (List.range m.length) (List.range m.length) = p at *
  simp only []
  have hdiag : ∀ q ∈ p.first ++ p.last, q.2 = q.1 := by
    intro q hq
    obtain ⟨i, _, rfl⟩ := List.mem_map.1 (hs.sub_pm _ hP q hq)
    rfl
  have hF : colsOf p.first = rowsOf p.first :=
    List.map_congr_left fun q hq => hdiag q (List.mem_append_left _ hq)
  have hL : colsOf p.last = rowsOf p.last :=
    List.map_congr_left fun q hq => hdiag q (List.mem_append_right _ hq)
  -- inner rows and inner columns are the same positions
  have hrc : p.ri.Perm p.ci := by
    have h1 := hs.rows_perm.trans hs.cols_perm.symm
    rw [hF, hL] at h1
    exact (List.perm_append_left_iff _).1 ((List.perm_append_right_iff _).1 h1)
  have hri_nil : p.ri = [] := by
    by_contra hne
    obtain ⟨r, hr, hmin⟩ := exists_min_rank (fun i => σ.idxOf i) hne
    have hsub : ∀ x ∈ p.ri, x < m.length := fun x hx =>
      List.mem_range.1 (hs.rows_perm.subset (List.mem_append_left _ (List.mem_append_right _ hx)))
    have hrlt := hsub r hr
    have hfilter : rowCols (seqInc m) p.ci r = [r] := by
      apply filter_eq_singleton hnd.2 (hrc.subset hr)
      intro c hc
      have hcri : c ∈ p.ri := hrc.symm.subset hc
      constructor
      · intro hinc
        by_contra hcr
        have := rank_of_valid_order m hu σ hσ hv hrlt (hsub c hcri) (fun e => hcr e.symm) hinc
        have := hmin c hcri
        omega
      · rintro rfl
        rw [seqInc_eq hu hrlt hrlt]; simp
    have : (r, r) ∈ firstPairs (seqInc m) p.ri p.ci := mem_firstPairs.2 ⟨hr, hfilter⟩
    rw [hstuck] at this
    exact absurd this (by simp)
  have := hs.rows_perm
  rw [hri_nil, List.append_nil] at this
  exact this

/-! ## ids, re-labelling (round 4) -/


/-! ### `sorted(...)` -/

theorem insertSorted_eq (x : Int) (l : List Int) : insertSorted x l = l.orderedInsert (· ≤ ·) x := by
  induction l with
  | nil => rfl
  | cons y ys ih =>
    simp only [insertSorted, List.orderedInsert]
    split <;> simp_all

theorem sortInts_eq (l : List Int) : sortInts l = l.insertionSort (· ≤ ·) := by
  induction l with
  | nil => rfl
  | cons x xs ih =>
    have : sortInts (x :: xs) = insertSorted x (sortInts xs) := rfl
    rw [this, ih, insertSorted_eq]; rfl

theorem sortInts_perm (l : List Int) : (sortInts l).Perm l := by
  rw [sortInts_eq]; exact List.perm_insertionSort _ l

theorem sortInts_congr {l₁ l₂ : List Int} (h : l₁.Perm l₂) : sortInts l₁ = sortInts l₂ := by
  rw [sortInts_eq, sortInts_eq]
  exact List.Perm.eq_of_pairwise' (r := (· ≤ ·)) (List.pairwise_insertionSort _ l₁)
    (List.pairwise_insertionSort _ l₂)
    ((List.perm_insertionSort _ l₁).trans (h.trans (List.perm_insertionSort _ l₂).symm))

theorem sortInts_map_sortInts (f : Int → Int) (l : List Int) :
    sortInts ((sortInts l).map f) = sortInts (l.map f) :=
  sortInts_congr ((sortInts_perm l).map f)


/-! ### positions stay in range (no hypothesis on the matrix) -/

/-- what one level / the whole of `prefetch` returns consists of positions it was given -/
structure PreMem (ri ci : List Nat) (p : Pre) : Prop where
  pairs : ∀ q ∈ p.first ++ p.last, q.1 ∈ ri ∧ q.2 ∈ ci
  rows : ∀ x ∈ p.ri, x ∈ ri
  cols : ∀ x ∈ p.ci, x ∈ ci

theorem step1_mem (im : Inc) (ri ci : List Nat) : PreMem ri ci (step1 im ri ci) := by
  refine ⟨?_, ?_, ?_⟩
  · intro q hq
    simp only [step1] at hq
    rcases List.mem_append.1 hq with hq | hq
    · obtain ⟨h1, h2⟩ := mem_firstPairs.1 hq
      exact ⟨h1, (rowCols_single h2).1⟩
    · obtain ⟨h1, h2⟩ := mem_lastPairs.1 hq
      exact ⟨(mem_removeAll.1 (colRows_single h2).1).1, (mem_removeAll.1 h1).1⟩
  · intro x hx
    simp only [step1] at hx
    exact (mem_removeAll.1 (mem_removeAll.1 hx).1).1
  · intro x hx
    simp only [step1] at hx
    exact (mem_removeAll.1 (mem_removeAll.1 hx).1).1

theorem prefetch_mem (im : Inc) : ∀ (n : Nat) (ri ci : List Nat), ri.length * ci.length = n →
    PreMem ri ci (prefetch im ri ci) := by
  intro n
  induction n using Nat.strongRecOn with
  | _ n ih =>
    intro ri ci hn
    have hs := step1_mem im ri ci
    rw [prefetch_eq]
    split
    · rename_i h
      have hp := ih _ (hn ▸ h) _ _ rfl
      refine ⟨?_, fun x hx => hs.rows x (hp.rows x hx), fun x hx => hs.cols x (hp.cols x hx)⟩
      intro q hq
      simp only [List.mem_append] at hq
      rcases hq with (hq | hq) | (hq | hq)
      · exact hs.pairs q (List.mem_append_left _ hq)
      · have := hp.pairs q (List.mem_append_left _ hq)
        exact ⟨hs.rows _ this.1, hs.cols _ this.2⟩
      · have := hp.pairs q (List.mem_append_right _ hq)
        exact ⟨hs.rows _ this.1, hs.cols _ this.2⟩
      · exact hs.pairs q (List.mem_append_right _ hq)
    · exact hs

theorem mem_applyPerm {p l : List Nat} {x : Nat} (h : x ∈ applyPerm p l) : x ∈ l := by
  simp only [applyPerm, List.mem_filterMap] at h
  obtain ⟨i, _, hi⟩ := h
  exact List.mem_of_getElem? hi

theorem genInner_mem (im : Inc) : ∀ (n : Nat) (ri ci : List Nat) (bs : List Block), ri.length = n →
    genInner im ri ci = .ok bs → ∀ b ∈ bs, (∀ r ∈ b.1, r ∈ ri) ∧ (∀ c ∈ b.2, c ∈ ci) := by
  intro n
  induction n using Nat.strongRecOn with
  | _ n ih =>
    intro ri ci bs hn hgen
    rw [genInner_eq] at hgen
    split at hgen
    · simp only [Except.ok.injEq] at hgen; subst hgen; simp
    · cases hfc : findCut im ri ci with
      | none => simp [hfc] at hgen
      | some i =>
        simp only [hfc] at hgen
        have hi := findCut_pos hfc
        cases hrest : genInner im (ri.drop i) (ci.drop i) with
        | error e => simp [hrest] at hgen
        | ok rest =>
          simp only [hrest, Except.ok.injEq] at hgen
          subst hgen
          have hih := ih (n - i) (by omega) (ri.drop i) (ci.drop i) rest
            (by simp only [List.length_drop]; omega) hrest
          intro b hb
          rcases List.mem_cons.1 hb with rfl | hb
          · exact ⟨fun r hr => List.mem_of_mem_take hr, fun c hc => List.mem_of_mem_take hc⟩
          · exact ⟨fun r hr => List.mem_of_mem_drop ((hih b hb).1 r hr),
              fun c hc => List.mem_of_mem_drop ((hih b hb).2 c hc)⟩

/-- every position in a block returned by `blaze` is a row `< nr` resp. a column `< nc` -/
theorem blazePos_mem (im : Inc) (nr nc : Nat) (rp cp : List Nat) (o : BlazeOut)
    (h : blazePos im nr nc rp cp = .ok o) :
    ∀ b ∈ o.blocks, (∀ r ∈ b.1, r < nr) ∧ (∀ c ∈ b.2, c < nc) := by
  have hm := prefetch_mem im _ (List.range nr) (List.range nc) rfl
  unfold blazePos at h
  generalize prefetch im (List.range nr) (List.range nc) = p at *
  simp only [] at h
  generalize hri' : (if p.ri.length * p.ci.length ≠ 0 then applyPerm rp p.ri else p.ri) = ri' at h
  generalize hci' : (if p.ri.length * p.ci.length ≠ 0 then applyPerm cp p.ci else p.ci) = ci' at h
  have hr : ∀ x ∈ ri', x ∈ p.ri := by
    intro x hx; rw [← hri'] at hx; split at hx
    · exact mem_applyPerm hx
    · exact hx
  have hc : ∀ x ∈ ci', x ∈ p.ci := by
    intro x hx; rw [← hci'] at hx; split at hx
    · exact mem_applyPerm hx
    · exact hx
  cases hgen : genInner im ri' ci' with
  | error e => rw [hgen] at h; simp at h
  | ok inner =>
    rw [hgen] at h
    simp only [Except.ok.injEq] at h
    subst h
    have hin := genInner_mem im _ ri' ci' inner rfl hgen
    intro b hb
    simp only [List.mem_append] at hb
    rcases hb with (hb | hb) | hb
    · obtain ⟨q, hq, rfl⟩ := mem_singles.1 hb
      have := hm.pairs q (List.mem_append_left _ hq)
      exact ⟨fun r hr => by rw [List.mem_singleton.1 hr]; exact List.mem_range.1 this.1,
        fun c hc => by rw [List.mem_singleton.1 hc]; exact List.mem_range.1 this.2⟩
    · exact ⟨fun r hr' => List.mem_range.1 (hm.rows _ (hr _ ((hin b hb).1 r hr'))),
        fun c hc' => List.mem_range.1 (hm.cols _ (hc _ ((hin b hb).2 c hc')))⟩
    · obtain ⟨q, hq, rfl⟩ := mem_singles.1 hb
      have := hm.pairs q (List.mem_append_right _ hq)
      exact ⟨fun r hr => by rw [List.mem_singleton.1 hr]; exact List.mem_range.1 this.1,
        fun c hc => by rw [List.mem_singleton.1 hc]; exact List.mem_range.1 this.2⟩

/-! ### ids -/

theorem idAt_map (f : Int → Int) (ids : List Int) {i : Nat} (hi : i < ids.length) :
    idAt (ids.map f) i = f (idAt ids i) := by
  simp [idAt, List.getD_eq_getElem?_getD, hi]

theorem labelBlock_map (f g : Int → Int) (eids qids : List Int) (b : Block)
    (hr : ∀ r ∈ b.1, r < eids.length) (hc : ∀ c ∈ b.2, c < qids.length) :
    labelBlock (eids.map f) (qids.map g) b = relabelBlock f g (labelBlock eids qids b) := by
  simp only [labelBlock, relabelBlock, sortInts_map_sortInts, List.map_map]
  congr 2
  · exact List.map_congr_left fun r hr' => idAt_map f eids (hr r hr')
  · exact List.map_congr_left fun c hc' => idAt_map g qids (hc c hc')

/-- **Equivariance.** `blaze` commutes with any re-labelling of the equation ids and of the quantity
ids (no hypothesis on the matrix, on the maps or on the heuristic's permutations): the decomposition
is a function of the incidence *pattern*, and the ids of the caller are attached afterwards.  This is
why a result remembered per pattern must have the *current* ids re-applied. -/
theorem blaze_relabel (f g : Int → Int) (m : List (List Bool)) (eids qids : List Int) (rp cp : List Nat) :
    blaze m (eids.map f) (qids.map g) rp cp =
      (blaze m eids qids rp cp).map fun bs => bs.map (relabelBlock f g) := by
  unfold blaze
  simp only [List.length_map]
  split
  · rfl
  · cases hb : blazePos (incOf m) eids.length qids.length rp cp with
    | error e => rfl
    | ok o =>
      simp only [Except.map, List.map_map]
      congr 1
      apply List.map_congr_left
      intro b hb'
      have := blazePos_mem _ _ _ _ _ o hb b hb'
      exact labelBlock_map f g eids qids b this.1 this.2


theorem map_idAt_range (ids : List Int) : (List.range ids.length).map (idAt ids) = ids := by
  apply List.ext_getElem (by simp)
  intro i h1 h2
  simp [idAt, List.getD_eq_getElem?_getD, h2]

/-- incidence between an equation id and a quantity id -/
def IncId (m : List (List Bool)) (eids qids : List Int) (e q : Int) : Prop :=
  ∃ i j, eids[i]? = some e ∧ qids[j]? = some q ∧ incOf m i j = true

/-- what the property says about `blaze(im, eids, qids)`, at the level of ids -/
structure BlazeIdSpec (m : List (List Bool)) (eids qids : List Int) (bs : List (List Int × List Int)) : Prop where
  eids_perm : (bs.flatMap (·.1)).Perm eids
  qids_perm : (bs.flatMap (·.2)).Perm qids
  square : ∀ b ∈ bs, b.1.length = b.2.length
  lbt : eids.Nodup → qids.Nodup →
    bs.Pairwise fun b b' => ∀ e ∈ b.1, ∀ q ∈ b'.2, ¬ IncId m eids qids e q
  pm : ∀ b ∈ bs, ∃ pb : Block, b = labelBlock eids qids pb ∧ HasPerfectMatching (incOf m) pb.1 pb.2

theorem blaze_id_spec (m : List (List Bool)) (eids qids : List Int) (rp cp : List Nat) (n : Nat)
    (he : eids.length = n) (hq : qids.length = n) (hm : m.length = n) (hrow : ∀ row ∈ m, row.length = n)
    (hpm : HasPerfectMatching (incOf m) (List.range n) (List.range n))
    (hrp : rp.Perm (List.range (prefetch (incOf m) (List.range n) (List.range n)).ri.length))
    (hcp : cp.Perm (List.range (prefetch (incOf m) (List.range n) (List.range n)).ci.length)) :
    ∃ bs, blaze m eids qids rp cp = .ok bs ∧ BlazeIdSpec m eids qids bs := by
  obtain ⟨o, ho, hs⟩ := blazePos_spec (incOf m) n rp cp hpm hrp hcp
  have hshape : ¬ (m.length ≠ eids.length ∨ m.any (fun row => row.length != qids.length) = true) := by
    rintro (h | h)
    · exact h (by omega)
    · obtain ⟨row, hr, hne⟩ := List.any_eq_true.1 h
      have := hrow row hr
      simp [this, hq] at hne
  have hblaze : blaze m eids qids rp cp = .ok (o.blocks.map (labelBlock eids qids)) := by
    unfold blaze
    rw [if_neg hshape, he, hq, ho]
  have hmem := blazePos_mem _ _ _ _ _ o ho
  refine ⟨_, hblaze, ⟨?_, ?_, ?_, ?_, ?_⟩⟩
  · rw [List.flatMap_map]
    have h1 : (o.blocks.flatMap fun b => (labelBlock eids qids b).1).Perm
        (o.blocks.flatMap fun b => b.1.map (idAt eids)) :=
      List.Perm.flatMap_left _ fun b _ => sortInts_perm _
    have h2 : (o.blocks.flatMap fun b => b.1.map (idAt eids)) = (blockRows o.blocks).map (idAt eids) := by
      simp [blockRows, List.map_flatMap]
    rw [h2] at h1
    have h3 := hs.rows_perm.map (idAt eids)
    rw [← he, map_idAt_range] at h3
    exact h1.trans h3
  · rw [List.flatMap_map]
    have h1 : (o.blocks.flatMap fun b => (labelBlock eids qids b).2).Perm
        (o.blocks.flatMap fun b => b.2.map (idAt qids)) :=
      List.Perm.flatMap_left _ fun b _ => sortInts_perm _
    have h2 : (o.blocks.flatMap fun b => b.2.map (idAt qids)) = (blockCols o.blocks).map (idAt qids) := by
      simp [blockCols, List.map_flatMap]
    rw [h2] at h1
    have h3 := hs.cols_perm.map (idAt qids)
    rw [← hq, map_idAt_range] at h3
    exact h1.trans h3
  · intro b hb
    obtain ⟨pb, hpb, rfl⟩ := List.mem_map.1 hb
    simp only [labelBlock, (sortInts_perm _).length_eq, List.length_map]
    exact hs.square pb hpb
  · intro hne hnq
    rw [List.pairwise_map]
    refine List.Pairwise.imp_of_mem ?_ hs.lbt
    intro a b ha hb hab e hea q hqb hinc
    obtain ⟨i, j, hi, hj, hij⟩ := hinc
    have hea' : e ∈ a.1.map (idAt eids) := (sortInts_perm _).subset hea
    have hqb' : q ∈ b.2.map (idAt qids) := (sortInts_perm _).subset hqb
    obtain ⟨r, hr, rfl⟩ := List.mem_map.1 hea'
    obtain ⟨c, hc, rfl⟩ := List.mem_map.1 hqb'
    have hrn : r < eids.length := by rw [he]; exact (hmem a ha).1 r hr
    have hcn : c < qids.length := by rw [hq]; exact (hmem b hb).2 c hc
    have hin : i < eids.length := (List.getElem?_eq_some_iff.1 hi).1
    have hjn : j < qids.length := (List.getElem?_eq_some_iff.1 hj).1
    have hir : i = r := by
      apply (List.Nodup.getElem_inj_iff hne (hi := hin) (hj := hrn)).1
      have := (List.getElem?_eq_some_iff.1 hi).2
      simp [idAt, List.getD_eq_getElem?_getD, hrn] at this ⊢
      exact this
    have hjc : j = c := by
      apply (List.Nodup.getElem_inj_iff hnq (hi := hjn) (hj := hcn)).1
      have := (List.getElem?_eq_some_iff.1 hj).2
      simp [idAt, List.getD_eq_getElem?_getD, hcn] at this ⊢
      exact this
    subst hir hjc
    have := hab i hr j hc
    rw [hij] at this
    exact absurd this (by simp)
  · intro b hb
    obtain ⟨pb, hpb, rfl⟩ := List.mem_map.1 hb
    exact ⟨pb, rfl, hs.pm pb hpb⟩


/-! ## executable validity, unique names (round 4) -/

theorem seqValidB_iff (m : SModel) : seqValidB m = true ↔ SeqValid m := by
  unfold seqValidB SeqValid
  simp only [List.all_eq_true, List.mem_range]
  constructor
  · intro h k hk v hv hvl
    have := h k hk
    rw [List.getElem?_eq_getElem hk] at this
    simp only [List.all_eq_true] at this
    have := this v hv
    simp only [Bool.or_eq_true, Bool.not_eq_true', beq_iff_eq, List.contains_iff_mem] at this
    rcases this with (h1 | h1) | h1
    · have : (m.map (·.lhs)).contains v = true := List.contains_iff_mem.2 hvl
      rw [h1] at this; exact absurd this (by simp)
    · exact Or.inl h1
    · right
      obtain ⟨e, he, rfl⟩ := List.mem_map.1 h1
      obtain ⟨j, hj, rfl⟩ := List.mem_take_iff_getElem.1 he
      exact ⟨j, by omega, by omega, rfl⟩
  · intro h k hk
    rw [List.getElem?_eq_getElem hk]
    simp only [List.all_eq_true]
    intro v hv
    simp only [Bool.or_eq_true, Bool.not_eq_true', beq_iff_eq, List.contains_iff_mem]
    by_cases hvl : v ∈ m.map (·.lhs)
    · rcases h k hk v hv hvl with h1 | ⟨j, hj, hjk, rfl⟩
      · exact Or.inl (Or.inr h1)
      · right
        exact List.mem_map.2 ⟨m[j], List.mem_take_iff_getElem.2 ⟨j, by omega, rfl⟩, rfl⟩
    · left; left
      cases hc : (m.map (·.lhs)).contains v with
      | false => rfl
      | true => exact absurd (List.contains_iff_mem.1 hc) hvl

instance (m : SModel) : Decidable (SeqValid m) := decidable_of_iff _ (seqValidB_iff m)

/-! dedup -/
theorem mem_dedup {l : List Nat} {x : Nat} : x ∈ dedup l ↔ x ∈ l := by
  induction l with
  | nil => simp [dedup]
  | cons a t ih =>
    simp only [dedup, List.mem_cons, List.mem_filter, ih]
    constructor
    · rintro (h | ⟨h, _⟩)
      · exact Or.inl h
      · exact Or.inr h
    · rintro (h | h)
      · exact Or.inl h
      · by_cases hxa : x = a
        · exact Or.inl hxa
        · exact Or.inr ⟨h, by simpa using hxa⟩

theorem dedup_nodup (l : List Nat) : (dedup l).Nodup := by
  induction l with
  | nil => simp [dedup]
  | cons a t ih =>
    simp only [dedup, List.nodup_cons, List.mem_filter]
    exact ⟨fun h => by simpa using h.2, ih.filter _⟩

theorem dedup_length_le (l : List Nat) : (dedup l).length ≤ l.length := by
  induction l with
  | nil => simp [dedup]
  | cons a t ih =>
    simp only [dedup, List.length_cons]
    have := List.length_filter_le (fun y => y != a) (dedup t)
    omega

theorem dedup_length_eq_iff (l : List Nat) : (dedup l).length = l.length ↔ l.Nodup := by
  constructor
  · intro h
    induction l with
    | nil => exact List.nodup_nil
    | cons a t ih =>
      simp only [dedup, List.length_cons] at h
      have h1 := List.length_filter_le (fun y => y != a) (dedup t)
      have h2 := dedup_length_le t
      have hf : ((dedup t).filter fun y => y != a).length = (dedup t).length := by omega
      have ht : (dedup t).length = t.length := by omega
      rw [List.nodup_cons]
      refine ⟨fun ha => ?_, ih ht⟩
      have := List.length_filter_eq_length_iff.1 hf a (mem_dedup.2 ha)
      simp at this
  · intro h; rw [dedup_of_nodup h]



/-! ### the unknowns of `split_into_blocks` -/

theorem mem_dedupI {l : List Int} {x : Int} : x ∈ dedupI l ↔ x ∈ l := by
  induction l with
  | nil => simp [dedupI]
  | cons a t ih =>
    simp only [dedupI, List.mem_cons, List.mem_filter, ih]
    constructor
    · rintro (h | ⟨h, _⟩)
      · exact Or.inl h
      · exact Or.inr h
    · rintro (h | h)
      · exact Or.inl h
      · by_cases hxa : x = a
        · exact Or.inl hxa
        · exact Or.inr ⟨h, by simpa using hxa⟩

theorem dedupI_nodup (l : List Int) : (dedupI l).Nodup := by
  induction l with
  | nil => simp [dedupI]
  | cons a t ih =>
    simp only [dedupI, List.nodup_cons, List.mem_filter]
    exact ⟨fun h => by simpa using h.2, ih.filter _⟩

/-- the unknowns: can be exogenized and is not exogenized by the plan, or is endogenized by the plan -/
theorem mem_wrtQids {c x e : List Int} {q : Int} :
    q ∈ wrtQids c x e ↔ (q ∈ c ∧ q ∉ x) ∨ q ∈ e := by
  unfold wrtQids
  rw [(sortInts_perm _).mem_iff, mem_dedupI, List.mem_append, List.mem_filter]
  simp

theorem wrtQids_nodup (c x e : List Int) : (wrtQids c x e).Nodup :=
  ((sortInts_perm _).nodup_iff).2 (dedupI_nodup _)

theorem steadyInc_length (t : List (List Int)) (w : List Int) : (steadyInc t w).length = t.length := by
  simp [steadyInc]

theorem steadyInc_row_length (t : List (List Int)) (w : List Int) :
    ∀ row ∈ steadyInc t w, row.length = w.length := by
  intro row h
  simp only [steadyInc, List.mem_map] at h
  obtain ⟨_, _, rfl⟩ := h
  simp

/-! ### round 5: decidability of the block relation, counting -/

instance (im : Inc) (b b' : Block) : Decidable (NoInc im b b') := by
  unfold NoInc; infer_instance

theorem flatMap_length_of_square {bs : List (List Int × List Int)} (h : ∀ b ∈ bs, b.1.length = b.2.length) :
    (bs.flatMap (·.1)).length = (bs.flatMap (·.2)).length := by
  induction bs with
  | nil => rfl
  | cons b t ih =>
    simp only [List.flatMap_cons, List.length_append]
    rw [h b List.mem_cons_self, ih fun b' hb' => h b' (List.mem_cons_of_mem _ hb')]

/-- the 4×4 matrix on which the order of the pairs prefetched *last* in different rounds matters -/
def orderMatrix : List (List Bool) :=
  [[false, false, true,  true ],
   [false, true,  true,  false],
   [true,  true,  false, false],
   [true,  false, false, false]]

/-! ### a worked example (used for the non-vacuity `example`s of Props/C16.lean) -/

/-- a 5×5 matrix with a perfect matching whose decomposition has a prefetched first pair, a 2×2 inner
block, a 1×1 inner block and a prefetched last pair -/
def exampleMatrix : List (List Bool) :=
  [[true,  false, false, false, false],
   [true,  true,  true,  false, false],
   [false, true,  true,  false, false],
   [true,  true,  false, true,  true ],
   [false, false, true,  true,  true ]]

theorem example_prefetch : prefetch (incOf exampleMatrix) (List.range 5) (List.range 5) =
    { first := [(0, 0)], last := [], ri := [1, 2, 3, 4], ci := [1, 2, 3, 4] } := by
  rw [prefetch_eq, prefetch_eq]; decide

theorem example_inner : genInner (incOf exampleMatrix) [2, 1, 3, 4] [1, 2, 4, 3] =
    .ok [([2, 1], [1, 2]), ([3, 4], [4, 3])] := by
  have h0 : genInner (incOf exampleMatrix) [] [] = .ok [] := by rw [genInner_eq]; decide
  have c1 : findCut (incOf exampleMatrix) [3, 4] [4, 3] = some 2 := by decide
  have h1 : genInner (incOf exampleMatrix) [3, 4] [4, 3] = .ok [([3, 4], [4, 3])] := by
    rw [genInner_eq, c1]
    simp only [List.drop_succ_cons, List.drop_nil, h0]
    decide
  have c2 : findCut (incOf exampleMatrix) [2, 1, 3, 4] [1, 2, 4, 3] = some 2 := by decide
  rw [genInner_eq, c2]
  simp only [List.drop_succ_cons, List.drop_zero, h1]
  decide

end IrisVerif.Blazer
