"""
C13 -- Change and cumulation transforms follow their formulas and invert each other.

Correspondence: the Lean model (IrisVerif/Model/Temporal.lean, driver C13; formulas regenerated from
series/_temporal.py by tools/gens/temporal.py) against irispie on the same request lines.
  class D  diff / adiff / cum_diff on small dyadic data, model over exact rationals: lines compared exactly;
  class T  everything through division, log, exp, ** : model over exact rationals (pct, roc, cum_pct, cum_roc,
           roc_from_pct, pct_from_roc) or IEEE doubles with the same scalar operations (the rest); NaN masks, starts
           and lengths compared exactly, values to 1e-9 relative, on positive data bounded away from 0.
Oracle (independent of the model, straight from the property statement): the documented formulas evaluated on raw
numpy arrays with a reference period computed by plain integer arithmetic / datetime, the conversion helpers against
the raw formulas of their targets, and the round trip cum_X(X(x, k), k, initial=x, span) == x itself.
"""
from __future__ import annotations
import datetime as dt
import fractions
import math
import struct
import warnings

import numpy as np
import irispie as ir
from irispie import dates as D

from .common import Ctx, err_kind, rat_of_float

DRIVERS = ["C13"]
LEVEL = "proof"
MANIFEST = {
    "category": "proof",
    "text": ("Lean 4 theorems (99, Props/C13.lean) about an executable model of series/_temporal.py whose formulas (the eight change lambdas, "
             "their neutral values, the five conversion helpers, the _CUMULATIVE_FACTORY table incl. default initial values) are regenerated "
             "from the Python AST on every run, so a changed formula re-checks the proofs. Proved, for every series of the model (one "
             "variant = frequency, rows, cells; several variants = MSer on shared rows): (1) every change is the NaN-strict cell-wise "
             "generated formula of x_t and the reference value, for every negative integer shift and the keywords yoy/soy/eopy/tty "
             "(reference period = Period.shift of the C09 calendar model, made explicit for regular frequencies; neutral-value fill 0/1/none "
             "in start-of-year periods under tty; a reference period before the first row reads as missing); leads, float-valued and "
             "unknown-string shifts are rejected by the change functions, soy/eopy/tty on integer periods too; (2) the documented formulas "
             "period by period: diff, pct, roc, adiff over any field (pct/roc under x_s != 0, missing when x_s = 0), diff_log, adiff_log, apct, "
             "aroc over the reals (Real.log/exp/rpow; logs under positivity); (3) roc_from_pct/pct_from_roc invert each other against "
             "pct/roc for every series and negative shift (field with 100 != 0); pct_from_apct, roc_from_apct, roc_from_aroc undo the "
             "annualisation for every series of POSITIVE values and every frequency (factor 1,1,2,4,12,365 from the source), and for EVERY "
             "series (any sign) when the factor is 1 (yearly, integer periods); (4) inversion: "
             "for every negative shift, every span of any step, forward and backward, cum_X(X(s,k),k,initial=s,span) exists and equals s where "
             "s is defined (non-zero for pct/roc, positive for diff_log) -- on the whole stretch, or chain by chain (period t belongs to the "
             "chain t + n*k) through series WITH missing values; forward also for keyword shifts on the initial span the code computes; "
             "stronger initial-condition form for unit-step spans; (5) several variants: trim removes exactly the leading/trailing rows "
             "missing in all variants, every transform is variant-local (initial broadcast by pickVariant = last supplied variant), shared "
             "rows do not leak; (6) the rejection branches of the cumulation (leads, keyword shift backward, empty spans, mixed frequencies, "
             "open span on an empty series). NOT proved: anything about IEEE rounding/overflow; the inversion where a value the recursion "
             "reads is missing/zero/non-positive (the result is then missing, by correspondence only); default/open-span resolution is "
             "modelled and tied by correspondence but the inversion theorems are stated for explicit spans. Tie: translator + differential "
             "correspondence on generated single- and multi-variant series (exact for diff/cum_diff on dyadic data, 1e-9 otherwise); "
             "independent numpy oracles (formulas incl. a 1e-300..1e300 magnitude axis, conversions, round trips incl. holes on other chains, "
             "variant broadcast, reuse of argument objects, positional/keyword spellings) supply the replay; object identity and the Python "
             "wrappers' argument passing are outside the Lean model."),
    "design": "7/C13",
    "note": ("IEEE rounding is outside the theorems (fields / reals); numpy's inf/nan results on zero divisors and non-positive logs "
             "are one 'missing' value in the model; variants are modelled one column at a time (multi-variant series: oracle only)."),
    "technique": "Lean 4 proof over executable model + translator-regenerated formulas + differential correspondence",
}
ASSUMPTIONS = [
    "floating-point rounding is not modelled: theorems are over fields / the reals; class-T comparisons use 1e-9 relative tolerance on positive data bounded away from 0",
    "numpy's non-finite results (division by zero, log of a non-positive number) are identified with 'missing' in the model",
    "one variant at a time in the model (plus the variant broadcast rule pickVariant for `initial`); column independence of multi-variant series is exercised by the numpy oracle only",
    "in-place mutation / aliasing of argument objects (Span, initial, change series) is outside the Lean model and covered by the reuse oracle only",
    "the variants oracle relies on irispie's documented broadcast rule (the last supplied variant is repeated) in addition to the property statement",
    "Series.get/set/trim semantics (property C10) are taken as a period-indexed map; representation details are not re-proved here",
]

CLS = {"I": D.IntegerPeriod, "Y": D.YearlyPeriod, "H": D.HalfyearlyPeriod, "Q": D.QuarterlyPeriod,
       "M": D.MonthlyPeriod, "D": D.DailyPeriod}
LETTER = {v: k for k, v in CLS.items()}
FVAL = {"I": 0, "Y": 1, "H": 2, "Q": 4, "M": 12, "D": 365}
BASE = {"Y": 2020, "H": 4040, "Q": 8080, "M": 24240, "D": 737425, "I": 0}
FREQS = ["Y", "H", "Q", "M", "D", "I"]
FLEX = ["diff", "diff_log", "pct", "roc"]
ANNUAL = ["adiff", "adiff_log", "apct", "aroc"]
CONV = ["roc_from_pct", "pct_from_roc", "pct_from_apct", "roc_from_apct", "roc_from_aroc"]
CUMS = ["cum_diff", "cum_diff_log", "cum_pct", "cum_roc"]
KEYWORDS = ["yoy", "soy", "eopy", "tty"]
NEEDS_FLOAT = {"diff_log", "adiff_log", "apct", "aroc", "pct_from_apct", "roc_from_apct", "roc_from_aroc", "cum_diff_log"}
EXACT_KINDS = {"diff", "adiff", "cum_diff"}
RTOL, ATOL = 1e-9, 1e-12
NAN = float("nan")


# ---------------------------------------------------------------------------------------
# encoding of series / cells on the pipe
# ---------------------------------------------------------------------------------------

def bits_of(x: float) -> int:
    return struct.unpack("<Q", struct.pack("<d", float(x)))[0]


def float_of_bits(n: int) -> float:
    return struct.unpack("<d", struct.pack("<Q", n))[0]


def enc_cell(c: str, x) -> str:
    if x is None or x != x:
        return "nan"
    if math.isinf(x):
        return "nan"           # numpy's non-finite results are one `missing` value in the model
    if c == "q":
        n, d = float(x).as_integer_ratio()
        return f"{n}/{d}"
    return str(bits_of(x))


def dec_cell(c: str, s: str) -> float:
    if s == "nan":
        return NAN
    if s == "inf":
        return float("inf")
    return float(fractions.Fraction(s)) if c == "q" else float_of_bits(int(s))


def enc_series(c: str, f: str, start: int, vals) -> str:
    return f"{f}:{start}:" + ",".join(enc_cell(c, v) for v in vals)


def make_series(f: str, start: int, vals):
    """vals: list of floats/None (one variant) or list of rows (several variants)"""
    arr = np.array([[NAN if v is None else v for v in (row if isinstance(row, (list, tuple)) else [row])] for row in vals], dtype=float)
    if arr.size == 0 or np.all(np.isnan(arr)):
        return ir.Series()
    return ir.Series(start=CLS[f](start), values=arr)


def dec_series(c: str, word: str):
    f, start, cells = word.split(":")
    vals = [dec_cell(c, s) for s in cells.split(",")] if cells else []
    return make_series(f, int(start), vals)


def canon_series(c: str, y, j: int = 0) -> str:
    """start + column j, non-finite -> nan, leading/trailing nan dropped (irispie only trims rows that are NaN in every variant)"""
    if y.start is None or y.data.size == 0:
        return "empty"
    col = [float(v) for v in y.data[:, j]]
    cells = [enc_cell(c, v) for v in col]
    lo, hi = 0, len(cells)
    while lo < hi and cells[lo] == "nan":
        lo += 1
    while hi > lo and cells[hi - 1] == "nan":
        hi -= 1
    if lo == hi:
        return "empty"
    return f"{LETTER[type(y.start)]}:{int(y.start.serial) + lo}:" + ",".join(cells[lo:hi])


def dec_shift(s: str):
    return s if s in KEYWORDS else int(s)


def dec_span(word: str):
    if word == "none":
        return None
    f, a, b, st = word.split(":")
    pa = None if a == "-" else CLS[f](int(a))
    pb = None if b == "-" else CLS[f](int(b))
    return ir.Span(pa, pb, int(st))


def dec_init(c: str, word: str):
    if word == "none":
        return None
    if word.startswith("v="):
        return dec_cell(c, word[2:])
    return dec_series(c, word)


def impl_eval(line: str) -> str:
    """the implementation's answer to one request line (mirrors IrisVerif/Driver/C13.lean `step`)"""
    ws = line.split()
    try:
        op, c = ws[0], ws[1]
        with warnings.catch_warnings(), np.errstate(all="ignore"):
            warnings.simplefilter("ignore")
            if op == "change":
                kind, shift, ser = ws[2:5]
                x = dec_series(c, ser)
                y = getattr(ir, kind)(x) if kind in ANNUAL else getattr(ir, kind)(x, dec_shift(shift))
                return canon_series(c, y)
            if op == "conv":
                kind, ser = ws[2:4]
                return canon_series(c, getattr(ir, kind)(dec_series(c, ser)))
            if op == "cum":
                kind, shift, ini, span, ser = ws[2:7]
                x = dec_series(c, ser)
                y = getattr(ir, kind)(x, dec_shift(shift), initial=dec_init(c, ini), span=dec_span(span))
                return canon_series(c, y)
            if op == "cumv":
                # handled by impl_cumv (one implementation call serves all variants)
                return "bad-op"
    except Exception as e:
        return err_kind(e)
    return "bad-op"


def canon_model_line(b: str) -> str:
    """a Float overflow in the model (`inf`) is the same non-finite result as on the implementation side: missing, then re-trimmed"""
    if "inf" not in b:
        return b
    f, start, cells = b.split(":")
    cells = ["nan" if x == "inf" else x for x in cells.split(",")]
    lo, hi = 0, len(cells)
    while lo < hi and cells[lo] == "nan":
        lo += 1
    while hi > lo and cells[hi - 1] == "nan":
        hi -= 1
    return "empty" if lo == hi else f"{f}:{int(start) + lo}:" + ",".join(cells[lo:hi])


def lines_agree(c: str, kind: str, a: str, b: str, exact: bool = False) -> bool:
    b = canon_model_line(b)
    """implementation line vs model line: exact for class D, NaN mask/start/length exact and values to tolerance otherwise"""
    if a == b:
        return True
    if exact and kind in EXACT_KINDS and c == "q":
        return False        # class D: dyadic data through + - and small integer factors is exact in IEEE doubles
    pa, pb = a.split(":"), b.split(":")
    if len(pa) != 3 or len(pb) != 3 or pa[:2] != pb[:2]:
        return False
    ca, cb = pa[2].split(","), pb[2].split(",")
    if len(ca) != len(cb):
        return False
    for u, v in zip(ca, cb):
        if (u == "nan") != (v == "nan"):
            return False
        if u == "nan":
            continue
        x, y = dec_cell(c, u), dec_cell(c, v)
        if not (abs(x - y) <= RTOL * max(abs(x), abs(y)) + ATOL):
            return False
    return True


# ---------------------------------------------------------------------------------------
# generators
# ---------------------------------------------------------------------------------------

def gen_values(rng, n: int, cls: str, f: str):
    """one column of n finite floats of the given data class"""
    if cls == "dyadic":        # exact under + - and small integer factors; zeros and negatives included
        return [rng.dyadic(-8, 8, 3) for _ in range(n)]
    if cls == "dyadic_nz":     # non-zero dyadic, both signs
        return [(rng.randint(1, 64) / 8.0) * (1 if rng.chance(0.7) else -1) for _ in range(n)]
    if cls == "wide":
        # positive finite values spread over 1e-300 ... 1e300: paired observations often differ by more than 308 decimal orders
        # (their ratio overflows or is subnormal although both logarithms are ordinary numbers)
        out = []
        for _ in range(n):
            e = rng.choice([-300, -160, 150, 300]) + rng.randint(-8, 8) if rng.chance(0.5) else rng.randint(-300, 300)
            out.append((1.0 + 8.0 * rng.random()) * 10.0 ** max(-300, min(300, e)))
        return out
    if cls == "zeros":         # dyadic with many zeros and negatives (divisors / log arguments outside the domain)
        return [rng.choice([0.0, 0.0, 1.0, -1.0, 2.5, -0.5, 4.0]) for _ in range(n)]
    # positive multiplicative random walk; per-period log growth within +-0.4/a so that annualised rates stay moderate
    a = FVAL[f] or 1
    level = 0.5 + 4.0 * rng.random()
    out = []
    for _ in range(n):
        level *= math.exp((rng.random() - 0.5) * 0.8 / a)
        out.append(level)
    return out


def punch(rng, vals, p_inner: float, ends: bool):
    """missing values: interior with probability p_inner each, optionally a leading/trailing run"""
    vals = list(vals)
    n = len(vals)
    for i in range(n):
        if rng.chance(p_inner):
            vals[i] = None
    if ends and n >= 3:
        for i in range(rng.randint(0, 2)):
            vals[i] = None
        for i in range(rng.randint(0, 2)):
            vals[n - 1 - i] = None
    return vals


def gen_start(rng, f: str) -> int:
    if f == "D" and rng.chance(0.5):
        # around a turn of the year so that soy/eopy/tty see both sides
        return dt.date(rng.choice([2019, 2020, 2021, 2024]), 12, 31).toordinal() - rng.randint(0, 12)
    return BASE[f] + rng.randint(-30, 30)


def gen_shift(rng, f: str):
    if rng.chance(0.62):
        return -rng.choice([1, 1, 1, 2, 2, 3, 4, 5, 7, 12])
    return rng.choice(KEYWORDS)


def vals_short_ok(rng, f: str, shift, n: int) -> bool:
    need = FVAL[f] if shift in ("yoy", "soy", "eopy") else (-shift if isinstance(shift, int) else 1)
    return n > need + 1 or rng.chance(0.1)


def carrier_for(kind: str, cls: str, rng) -> str:
    if kind in NEEDS_FLOAT:
        return "f"
    if kind in EXACT_KINDS and cls.startswith("dyadic"):
        return "q"
    return "q" if rng.chance(0.5) else "f"


def gen_change_lines(ctx: Ctx, rng, count: int):
    out = []
    for _ in range(count):
        f = rng.weighted([("Q", 4), ("M", 3), ("Y", 2), ("H", 2), ("D", 2), ("I", 2)])
        kind = rng.choice(FLEX + FLEX + ANNUAL)
        cls = rng.weighted([("dyadic", 3), ("positive", 1)]) if kind in ("diff", "adiff") else \
            rng.weighted([("positive", 6), ("dyadic_nz", 2 if kind in ("pct", "roc") else 0), ("zeros", 1)])
        n = rng.choice([1, 2, 3, 5, 8, 13, 20, 30]) if rng.chance(0.5) else rng.randint(1, 30)
        vals = punch(rng, gen_values(rng, n, cls, f), rng.choice([0.0, 0.0, 0.1, 0.3]), rng.chance(0.3))
        shift = gen_shift(rng, f)
        if not vals_short_ok(rng, f, shift, n):
            # most series are long enough for the lag to leave something (a few stay short on purpose)
            n = (FVAL[f] if shift in ("yoy", "soy", "eopy") else (-shift if isinstance(shift, int) else 1)) + rng.randint(2, 9)
            vals = punch(rng, gen_values(rng, n, cls, f), rng.choice([0.0, 0.0, 0.1]), rng.chance(0.3))
        r = rng.random()
        if r < 0.03:
            shift = rng.choice([0, 1, 3])          # malformed: leads are rejected
        elif r < 0.05:
            vals = []                              # empty series
        c = carrier_for(kind, cls, rng)
        out.append((kind, c, f"change {c} {kind} {shift} {enc_series(c, f, gen_start(rng, f), vals)}", cls == "dyadic"))
        ctx.count(f"change:{kind}")
        ctx.count(f"freq:{f}")
        ctx.count(f"data:{cls}")
        ctx.count("shift:" + (shift if isinstance(shift, str) else ("neg" if shift < 0 else "malformed")))
    return out


def gen_conv_lines(ctx: Ctx, rng, count: int):
    out = []
    for _ in range(count):
        f = rng.choice(FREQS)
        kind = rng.choice(CONV)
        a = FVAL[f] or 1
        n = rng.randint(0, 20)
        # data in the units the helper expects: percent changes, gross rates, annualised rates -- all with positive gross rate
        if kind in ("roc_from_pct", "pct_from_apct", "roc_from_apct"):
            vals = [100 * (math.exp((rng.random() - 0.5) * 0.8) - 1) for _ in range(n)]
        else:
            vals = [math.exp((rng.random() - 0.5) * 0.8) for _ in range(n)]
        if rng.chance(0.15) and kind in ("pct_from_apct", "roc_from_apct", "roc_from_aroc"):
            # negative gross rate: NaN for a fractional exponent, defined (exponent 1.0) for yearly and integer periods
            vals = [v - 250.0 if rng.chance(0.3) else v for v in vals]
        vals = punch(rng, vals, rng.choice([0.0, 0.2]), rng.chance(0.3))
        c = carrier_for(kind, "positive", rng)
        out.append((kind, c, f"conv {c} {kind} {enc_series(c, f, gen_start(rng, f), vals)}", False))
        ctx.count(f"conv:{kind}")
    return out


def gen_cum_lines(ctx: Ctx, rng, count: int):
    """round trips (change series computed by the implementation itself) and free-standing cumulations"""
    out = []
    for _ in range(count):
        f = rng.weighted([("Q", 4), ("M", 3), ("Y", 2), ("H", 2), ("D", 2), ("I", 2)])
        kind = rng.choice(CUMS)
        base = kind[4:]
        cls = rng.weighted([("dyadic", 4), ("positive", 1)]) if kind == "cum_diff" else \
            rng.weighted([("positive", 6), ("dyadic_nz", 1 if kind != "cum_diff_log" else 0)])
        n = rng.randint(2, 26)
        vals = punch(rng, gen_values(rng, n, cls, f), rng.choice([0.0, 0.0, 0.0, 0.15]), rng.chance(0.15))
        start = gen_start(rng, f)
        c = carrier_for(kind, cls, rng)
        shift = -rng.choice([1, 1, 2, 3, 4, 5]) if rng.chance(0.75) else rng.choice(KEYWORDS)
        direction = "forward" if rng.chance(0.55) or isinstance(shift, str) and rng.chance(0.8) else "backward"
        # the change series the cumulation starts from: mostly the implementation's own change of `vals`
        x = make_series(f, start, vals)
        mode = rng.weighted([("roundtrip", 7), ("free", 2)])
        chg_word = None
        if mode == "roundtrip":
            try:
                with warnings.catch_warnings(), np.errstate(all="ignore"):
                    warnings.simplefilter("ignore")
                    ch = getattr(ir, base)(x, shift)
                chg_word = canon_series(c, ch)
                if chg_word == "empty":
                    chg_word = f"{f}:0:"
            except Exception:
                chg_word = None
        if chg_word is None:
            mode = "free"
            small = [rng.dyadic(-2, 2, 2) for _ in range(n)] if kind == "cum_diff" else \
                    [100 * (math.exp((rng.random() - 0.5) * 0.4) - 1) for _ in range(n)] if kind == "cum_pct" else \
                    [(rng.random() - 0.5) * 0.4 for _ in range(n)] if kind == "cum_diff_log" else \
                    [math.exp((rng.random() - 0.5) * 0.4) for _ in range(n)]
            chg_word = enc_series(c, f, start, punch(rng, small, rng.choice([0.0, 0.1]), False))
        # initial condition
        ini = rng.weighted([("series", 7), ("none", 1), ("scalar", 1), ("other", 1)])
        if ini == "series":
            ini_word = enc_series(c, f, start, vals)
        elif ini == "none":
            ini_word = "none"
        elif ini == "scalar":
            ini_word = "v=" + enc_cell(c, rng.choice([1.0, 2.5, 10.0]))
        else:
            ini_word = enc_series(c, f, start + rng.randint(-3, 3), gen_values(rng, rng.randint(1, n), "positive", f))
        # span
        lo, hi = start, start + n - 1
        sp = rng.weighted([("explicit", 7), ("default", 2 if direction == "forward" else 0), ("open", 1 if direction == "forward" else 0),
                           ("step", 1), ("mixed", 0.3), ("emptyspan", 0.2)])
        k = -shift if isinstance(shift, int) else (FVAL[f] if shift == "yoy" else 1)
        if sp == "default":
            span_word = "none"
        elif sp == "open":
            span_word = f"{f}:{'-' if rng.chance(0.5) else lo + k}:{'-' if rng.chance(0.5) else hi}:1"
        elif sp == "mixed":
            g = rng.choice([x for x in FREQS if x != f])
            span_word = f"{g}:{BASE[g]}:{BASE[g] + 4}:1" if direction == "forward" else f"{g}:{BASE[g] + 4}:{BASE[g]}:-1"
        else:
            if rng.chance(0.8):
                # mostly spans on which the recursion finds its initial values inside the series
                if direction == "forward":
                    a = rng.randint(min(lo + k, hi), hi)
                    b = rng.randint(a, hi)
                else:
                    a = rng.randint(lo, max(lo, hi - k))
                    b = rng.randint(a, max(a, hi - k))
            else:
                a = rng.randint(lo - 1, hi)
                b = rng.randint(a, hi + 2)
            st = 1 if sp != "step" else rng.choice([2, 3])
            if sp == "emptyspan":
                a, b = b + 1, a                  # start after end
            if direction == "backward":
                a, b, st = b, a, -st
            span_word = f"{f}:{a}:{b}:{st}"
        if rng.chance(0.02):
            shift = rng.choice([0, 2])                   # malformed shift
        out.append((kind, c, f"cum {c} {kind} {shift} {ini_word} {span_word} {chg_word}", cls == "dyadic" and ini != "other"))
        ctx.count(f"cum:{kind}:{direction}")
        ctx.count(f"cum_span:{sp}")
        ctx.count(f"cum_initial:{ini}")
        ctx.count(f"cum_mode:{mode}")
    return out


# ---------------------------------------------------------------------------------------
# property oracle on the implementation (numpy + integer arithmetic + datetime only)
# ---------------------------------------------------------------------------------------

FORMULA = {
    "diff": lambda xt, xs, a: xt - xs,
    "diff_log": lambda xt, xs, a: np.log(xt) - np.log(xs),
    "pct": lambda xt, xs, a: 100 * (xt / xs - 1),
    "roc": lambda xt, xs, a: xt / xs,
    "adiff": lambda xt, xs, a: a * (xt - xs),
    "adiff_log": lambda xt, xs, a: a * (np.log(xt) - np.log(xs)),
    "apct": lambda xt, xs, a: 100 * ((xt / xs) ** a - 1),
    "aroc": lambda xt, xs, a: (xt / xs) ** a,
}


def ref_serial(f: str, t: int, shift):
    """the reference period s of period t (serial numbers); None: no reference period (tty in a start-of-year period)"""
    if isinstance(shift, int):
        return t + shift
    a = FVAL[f]
    if f == "D":
        d = dt.date.fromordinal(t)
        if shift == "yoy":
            return t - 365
        if shift == "soy":
            return dt.date(d.year, 1, 1).toordinal()
        if shift == "eopy":
            return dt.date(d.year - 1, 12, 31).toordinal()
        return None if (d.month, d.day) == (1, 1) else t - 1
    year_start = (t // a) * a
    if shift == "yoy":
        return t - a
    if shift == "soy":
        return year_start
    if shift == "eopy":
        return year_start - 1
    return None if t == year_start else t - 1


def table_of(y) -> dict:
    """serial -> row of the raw data array"""
    if y.start is None or y.data.size == 0:
        return {}
    s0 = int(y.start.serial)
    return {s0 + i: y.data[i, :] for i in range(y.data.shape[0])}


def close(a: float, b: float) -> bool:
    if a != a or b != b:
        return (a != a) and (b != b)
    if math.isinf(a) or math.isinf(b):
        return a == b
    return abs(a - b) <= RTOL * max(abs(a), abs(b)) + ATOL


def rows_of(case):
    return [[NAN if v is None else float(v) for v in row] for row in case["values"]]


def oracle_change(ctx: Ctx, case):
    """y_t = formula(x_t, x_s) period by period, NaN where x_t or x_s is missing"""
    f, start, kind, shift = case["freq"], case["start"], case["kind"], case["shift"]
    rows = rows_of(case)
    nv = len(rows[0])
    a = FVAL[f] or 1
    x = make_series(f, start, rows)
    if x.start is None:
        return          # a series without any observation has no periods to speak about
    ctx.evaluations += 1
    site = f"formula-{kind}"
    try:
        with warnings.catch_warnings(), np.errstate(all="ignore"):
            warnings.simplefilter("ignore")
            y = getattr(ir, kind)(x) if kind in ANNUAL else getattr(ir, kind)(x, shift)
    except Exception as e:
        ctx.fail(site, case, f"{kind} raises {e!r}")
        return
    got = table_of(y)
    xs_tab = {start + i: rows[i] for i in range(len(rows))}
    nanrow = [NAN] * nv
    lag = 370 if (f == "D" and shift in ("yoy", "soy", "eopy")) else 16
    for t in range(start - 2, start + len(rows) + lag):
        s = ref_serial(f, t, -1 if kind in ANNUAL else shift)
        xt = xs_tab.get(t, nanrow)
        g = got.get(t, nanrow)
        for j in range(nv):
            if s is None:
                # start-of-year period under "tty": documented as "the value ... is unchanged"; demanded for diff and roc only
                if kind in ("diff", "roc"):
                    want = xt[j]
                else:
                    continue
            else:
                xsv = xs_tab.get(s, nanrow)[j]
                with np.errstate(all="ignore"):
                    want = float(FORMULA[kind](np.float64(xt[j]), np.float64(xsv), a))
            if not close(float(g[j]), want):
                ctx.fail(site, case, f"period serial {t} variant {j}: {kind} gives {float(g[j])!r}, formula on raw data gives {want!r} (x_t={xt[j]!r}, reference serial {s})")
                return
    if len(rows) >= 3:
        ctx.nontriv(("change", kind, f, str(shift), nv, any(v != v for r in rows for v in r)))


def oracle_conv(ctx: Ctx, case):
    """helper(change(x)) equals the raw formula of the target change"""
    f, start, kind, shift = case["freq"], case["start"], case["kind"], case["shift"]
    rows = rows_of(case)
    nv = len(rows[0])
    x = make_series(f, start, rows)
    src, tgt = {"roc_from_pct": ("pct", "roc"), "pct_from_roc": ("roc", "pct"), "pct_from_apct": ("apct", "pct"),
                "roc_from_apct": ("apct", "roc"), "roc_from_aroc": ("aroc", "roc")}[kind]
    if src in ANNUAL:
        shift = -1
    if x.start is None:
        return
    ctx.evaluations += 1
    site = f"conversion-{kind}"
    try:
        with warnings.catch_warnings(), np.errstate(all="ignore"):
            warnings.simplefilter("ignore")
            mid = getattr(ir, src)(x) if src in ANNUAL else getattr(ir, src)(x, shift)
            y = getattr(ir, kind)(mid)
    except Exception as e:
        ctx.fail(site, case, f"{kind}({src}(x)) raises {e!r}")
        return
    got = table_of(y)
    xs_tab = {start + i: rows[i] for i in range(len(rows))}
    nanrow = [NAN] * nv
    for t in range(start - 2, start + len(rows) + 16):
        s = t + shift
        for j in range(nv):
            xt, xsv = xs_tab.get(t, nanrow)[j], xs_tab.get(s, nanrow)[j]
            want = float(FORMULA[tgt](np.float64(xt), np.float64(xsv), 1))
            g = float(got.get(t, nanrow)[j])
            if not close(g, want):
                ctx.fail(site, case, f"period serial {t} variant {j}: {kind}({src}(x)) gives {g!r}, {tgt} formula on raw data gives {want!r}")
                return
    if len(rows) >= 3:
        ctx.nontriv(("conv", kind, f, shift, nv))


def oracle_roundtrip(ctx: Ctx, case):
    """cum_X(X(x, k), k, initial=x, span) == x on the span (x without missing values where the recursion reads it)"""
    f, start, kind, k, direction = case["freq"], case["start"], case["kind"], case["shift"], case["direction"]
    rows = rows_of(case)
    nv = len(rows[0])
    a, b = case["span"] if case["span"] else (None, None)
    x = make_series(f, start, rows)
    base = kind[4:]
    step = abs(int(case.get("step") or 1))      # spans of any step: every period between the initial periods and the span end is demanded
    ctx.evaluations += 1
    site = f"roundtrip-{kind}"
    try:
        with warnings.catch_warnings(), np.errstate(all="ignore"):
            warnings.simplefilter("ignore")
            ch = getattr(ir, base)(x, k)
            if case["span"] is None:
                y = getattr(ir, kind)(ch, k, initial=x)
                a, b = start - k, start + len(rows) - 1
            elif direction == "forward":
                y = getattr(ir, kind)(ch, k, initial=x, span=ir.Span(CLS[f](a), CLS[f](b), step))
            else:
                y = getattr(ir, kind)(ch, k, initial=x, span=ir.Span(CLS[f](a), CLS[f](b), -step))
    except Exception as e:
        ctx.fail(site, case, f"{kind}({base}(x, {k}), {k}, initial=x, span={case['span']}, {direction}) raises {e!r}")
        return
    got = table_of(y)
    xs_tab = {start + i: rows[i] for i in range(len(rows))}
    lo, hi = (a, b) if direction == "forward" else (b, a)
    if direction == "backward" and step > 1:
        lo = a - ((a - b) // step) * step       # the last period a stepped backward span reaches: the initial span starts there
    holes = 0
    for t in range(lo, hi + 1):
        for j in range(nv):
            # the chain of t: t, t+k, … down to the initial periods (forward) / t, t-k, … up to them (backward); the round trip is
            # demanded in period t when the original has no missing value on that chain (other chains may have holes)
            chain = range(t, a + k - 1, k) if direction == "forward" else range(t, a - k + 1, -k)
            if any(u not in xs_tab or xs_tab[u][j] != xs_tab[u][j] for u in chain):
                holes += 1
                continue
            g = float(got[t][j]) if t in got else NAN
            want = xs_tab[t][j]
            if not close(g, want):
                ctx.fail(site, case, f"period serial {t} variant {j}: round trip gives {g!r}, original value {want!r}"
                                     + (" (chain of this period has no missing value; other chains do)" if case.get("holes") else ""))
                return
    if hi - lo >= 2:
        ctx.nontriv(("roundtrip", kind, f, k, direction, nv, case["span"] is None, holes > 0, step))


def gen_oracle_cases(ctx: Ctx, rng, count: int):
    cases = []
    for _ in range(count):
        f = rng.weighted([("Q", 4), ("M", 3), ("Y", 2), ("H", 2), ("D", 2), ("I", 2)])
        nv = rng.weighted([(1, 3), (2, 2), (3, 1)])
        n = rng.randint(1, 30)
        start = gen_start(rng, f)
        what = rng.weighted([("change", 5), ("conv", 2), ("roundtrip", 5)])
        if what == "change":
            kind = rng.choice(FLEX + FLEX + (ANNUAL if f != "I" else []))
            cls = "dyadic" if kind in ("diff", "adiff") and rng.chance(0.7) else "positive"
            # magnitude axis: the documented formulas evaluated in floats stay finite where a rearranged formula need not
            if kind in ("diff_log", "adiff_log") and rng.chance(0.3) or kind in ("diff", "adiff", "pct", "roc") and rng.chance(0.05):
                cls = "wide"
            ctx.count(f"oracle_data:{cls}")
            cols = [punch(rng, gen_values(rng, n, cls, f), rng.choice([0.0, 0.1, 0.3]), rng.chance(0.3)) for _ in range(nv)]
            shift = gen_shift(rng, f)
            if f == "I" and isinstance(shift, str):
                shift = -rng.randint(1, 4)       # keyword shifts have no calendar meaning for integer periods
            if f == "D" and shift == "yoy":
                n2 = 366 + rng.randint(1, 8)     # a daily year-on-year change needs more than a year of data
                cols = [gen_values(rng, n2, cls, f) for _ in range(nv)]
            cases.append({"op": "change", "kind": kind, "freq": f, "start": start, "shift": shift,
                          "values": [list(r) for r in zip(*cols)]})
        elif what == "conv":
            kind = rng.choice(CONV)
            if f == "I" and kind in ("pct_from_apct", "roc_from_apct", "roc_from_aroc"):
                f = "Q"
                start = gen_start(rng, f)
            ccls = "positive"
            if rng.chance(0.3):
                # yearly / integer periods: the annualisation factor is 1, `gross**(1/1)` is defined for negative gross rates too, so the
                # helpers must be consistent with pct / roc on data that change sign (the raw formulas below are evaluated in floats)
                f = rng.choice(["Y", "I"])
                start = gen_start(rng, f)
                ccls = "dyadic_nz"
            ctx.count(f"oracle_conv:{ccls}:{f}")
            cols = [punch(rng, gen_values(rng, n, ccls, f), rng.choice([0.0, 0.1]), rng.chance(0.3)) for _ in range(nv)]
            cases.append({"op": "conv", "kind": kind, "freq": f, "start": start, "shift": -rng.choice([1, 1, 2, 3, 5]),
                          "values": [list(r) for r in zip(*cols)]})
        else:
            kind = rng.choice(CUMS)
            n = rng.randint(3, 30)
            cls = "dyadic" if kind == "cum_diff" and rng.chance(0.7) else ("dyadic_nz" if kind in ("cum_pct", "cum_roc") and rng.chance(0.15) else "positive")
            k = -rng.choice([1, 1, 2, 3, 4, 5, 7])
            direction = rng.choice(["forward", "backward"])
            cols = [gen_values(rng, n, cls, f) for _ in range(nv)]
            lo, hi = start, start + n - 1
            span = None
            if direction == "forward":
                if rng.chance(0.25) and n > -k:
                    span = None            # default span: the whole change series
                else:
                    if n <= -k:
                        k = -1
                    a = rng.randint(lo - k, hi)
                    b = rng.randint(a, hi)
                    span = [a, b]
                    # missing values outside the stretch the recursion reads are allowed
                    for col in cols:
                        for i in range(n):
                            if (lo + i < a + k or lo + i > b) and rng.chance(0.3):
                                col[i] = None
            else:
                if n <= -k:
                    k = -1
                a = rng.randint(lo, hi + k)            # first period written; needs values up to a - k
                b = rng.randint(lo, a)
                span = [a, b]
                for col in cols:
                    for i in range(n):
                        if (lo + i < b or lo + i > a - k) and rng.chance(0.3):
                            col[i] = None
            step = rng.choice([2, 2, 3]) if span is not None and rng.chance(0.3) else 1
            holes = False
            if span is not None and step == 1 and k <= -2 and rng.chance(0.35):
                # interior missing values: the |k| interleaved chains are independent, a hole spoils its own chain only
                holes = True
                for col in cols:
                    for _ in range(rng.randint(1, 2)):
                        col[rng.randint(0, n - 1)] = None
            cases.append({"op": "roundtrip", "kind": kind, "freq": f, "start": start, "shift": k, "direction": direction,
                          "span": span, "step": step, "holes": holes, "values": [list(r) for r in zip(*cols)]})
            ctx.count("oracle_roundtrip:" + ("holes" if holes else "complete") + f":{direction}:step{step}")
    return cases


def run_oracle_case(ctx: Ctx, case):
    {"change": oracle_change, "conv": oracle_conv, "roundtrip": oracle_roundtrip, "variants": oracle_variants,
     "reuse": oracle_reuse, "reuse_change": oracle_reuse_change, "spelling": oracle_spellings,
     "keyword_roundtrip": oracle_keyword_roundtrip}[case["op"]](ctx, case)



# ---------------------------------------------------------------------------------------
# operands with different numbers of variants (the broadcast rule of set_data)
# ---------------------------------------------------------------------------------------

def build_initial(f: str, spec):
    """spec: {"kind": "series", "start": s, "values": rows} | {"kind": "list", "values": [..]} | {"kind": "scalar", "value": v}"""
    if spec["kind"] == "series":
        return make_series(f, spec["start"], spec["values"])
    if spec["kind"] == "list":
        return [float(v) for v in spec["values"]]
    return float(spec["value"])


def gen_cumv_cases(ctx: Ctx, rng, count: int):
    """a change series with nv variants cumulated with an `initial` carrying m variants (series, list of numbers or number)"""
    cases = []
    for _ in range(count):
        f = rng.weighted([("Q", 4), ("M", 3), ("Y", 2), ("H", 2), ("D", 1), ("I", 2)])
        kind = rng.choice(CUMS)
        nv = rng.choice([2, 3, 3, 4])
        m = rng.weighted([(nv - 1, 4), (1, 1), (nv, 1), (max(1, nv - 2), 2)])
        n = rng.randint(4, 16)
        cls = "dyadic" if kind == "cum_diff" and rng.chance(0.7) else "positive"
        start = gen_start(rng, f)
        cols = [gen_values(rng, n, cls, f) for _ in range(nv)]
        k = -rng.choice([1, 1, 2, 3])
        direction = rng.choice(["forward", "backward"])
        lo, hi = start, start + n - 1
        if direction == "forward":
            a = rng.randint(min(lo - k, hi), hi); b = rng.randint(a, hi); st = 1
        else:
            a = rng.randint(lo, max(lo, hi + k)); b = rng.randint(lo, a); st = -1
        ik = rng.weighted([("series", 6), ("list", 2), ("scalar", 1)])
        if ik == "series":
            icols = [gen_values(rng, n, cls, f) for _ in range(m)] if rng.chance(0.5) else [list(c) for c in cols[:m]]
            ini = {"kind": "series", "start": start + rng.choice([0, 0, -1, 1]), "values": [list(r) for r in zip(*icols)]}
        elif ik == "list":
            ini = {"kind": "list", "values": [rng.dyadic(1, 6, 2) for _ in range(m)]}
        else:
            ini = {"kind": "scalar", "value": rng.dyadic(1, 6, 2)}
        cases.append({"op": "cumv", "kind": kind, "freq": f, "start": start, "shift": k, "span": [a, b, st], "initial": ini,
                      "values": [list(r) for r in zip(*cols)], "exact": cls == "dyadic" and (ik != "series" or True), "carrier": None})
        ctx.count(f"cumv:{kind}:{direction}")
        ctx.count(f"cumv_variants:{nv}<-{m if ik != 'scalar' else 1}:{ik}")
    return cases


def run_cumv(ctx: Ctx, cases, stream="cumv"):
    """implementation (one call, all variants) against the model (one line per variant, initial chosen by `pickVariant`)"""
    triples, impl = [], []
    for case in cases:
        f, start, kind, k = case["freq"], case["start"], case["kind"], case["shift"]
        a, b, st = case["span"]
        rows = rows_of(case)
        nv = len(rows[0])
        c = "f" if kind in NEEDS_FLOAT else ("q" if case.get("exact") else "f")
        x = make_series(f, start, rows)
        try:
            with warnings.catch_warnings(), np.errstate(all="ignore"):
                warnings.simplefilter("ignore")
                ch = getattr(ir, kind[4:])(x, k)
                y = getattr(ir, kind)(ch, k, initial=build_initial(f, case["initial"]), span=ir.Span(CLS[f](a), CLS[f](b), st))
            outs = ["empty" if y.start is None else canon_series(c, y, j) if y.data.shape[1] == nv else "shape" for j in range(nv)]
        except Exception as e:
            outs = [err_kind(e)] * nv
        ini = case["initial"]
        if ini["kind"] == "series":
            irows = [[NAN if v is None else float(v) for v in r] for r in ini["values"]]
            iw = [enc_series(c, f, ini["start"], [r[i] for r in irows]) for i in range(len(irows[0]))]
        elif ini["kind"] == "list":
            iw = ["v=" + enc_cell(c, v) for v in ini["values"]]
        else:
            iw = ["v=" + enc_cell(c, ini["value"])]
        for j in range(nv):
            if ch.start is None:
                chw = f"{f}:0:"
            else:
                chw = enc_series(c, f, int(ch.start.serial), [float(v) for v in ch.data[:, j]])
            line = f"cumv {c} {kind} {k} {f}:{a}:{b}:{st} {j} {chw} " + " ".join(iw)
            triples.append((kind, c, line, bool(case.get("exact")), case))
            impl.append(outs[j])
    lines = [t[2] for t in triples]
    model = ctx.model("C13", lines)
    ctx.evaluations += len(lines)
    if triples:
        ctx.sample({"stream": stream, "request": lines[0][:400], "implementation": impl[0][:300]})
    if model is None:
        return
    ctx.streams_compared[stream] = ctx.streams_compared.get(stream, 0) + len(lines)
    for (kind, c, line, exact, case), a_, b_ in zip(triples, impl, model):
        if not lines_agree(c, kind, a_, b_, exact):
            if len([d for d in ctx.disagreements if d["stream"] == stream]) < 25:
                ctx.disagree(stream, case, a_, b_)
        elif ":" in a_:
            ctx.nontriv(("cumv", kind, case["freq"], len(case["values"][0]), case["initial"]["kind"], line.split()[5]))


def oracle_variants(ctx: Ctx, case):
    """round trip when `initial` carries fewer variants than the change series: by the documented broadcast rule ("repeat
    the last element") the receiving variants beyond the supplied ones start from the LAST supplied variant; when the
    original series coincides with that variant on the |k| initial periods, the cumulation must reproduce every variant"""
    f, start, kind, k, direction = case["freq"], case["start"], case["kind"], case["shift"], case["direction"]
    m = case["initial_variants"]
    rows = rows_of(case)
    nv = len(rows[0])
    a, b = case["span"]
    x = make_series(f, start, rows)
    init = make_series(f, start, [r[:m] for r in rows])
    ctx.evaluations += 1
    site = f"roundtrip-variants-{kind}"
    try:
        with warnings.catch_warnings(), np.errstate(all="ignore"):
            warnings.simplefilter("ignore")
            ch = getattr(ir, kind[4:])(x, k)
            span = ir.Span(CLS[f](a), CLS[f](b)) if direction == "forward" else ir.Span(CLS[f](a), CLS[f](b), -1)
            y = getattr(ir, kind)(ch, k, initial=init, span=span)
    except Exception as e:
        ctx.fail(site, case, f"{kind} with a {m}-variant initial and a {nv}-variant change raises {e!r}")
        return
    got = table_of(y)
    lo, hi = (a, b) if direction == "forward" else (b, a)
    for t in range(lo, hi + 1):
        for j in range(nv):
            g = float(got[t][j]) if t in got and len(got[t]) == nv else NAN
            want = rows[t - start][j]
            if not close(g, want):
                ctx.fail(site, case, f"period serial {t} variant {j}: round trip with a {m}-variant initial gives {g!r}, original value {want!r}")
                return
    ctx.nontriv(("variants", kind, f, k, direction, nv, m))


def gen_variant_cases(ctx: Ctx, rng, count: int):
    cases = []
    for _ in range(count):
        f = rng.weighted([("Q", 4), ("M", 3), ("Y", 2), ("H", 2), ("D", 1), ("I", 2)])
        kind = rng.choice(CUMS)
        nv = rng.choice([3, 3, 4, 2])
        m = rng.randint(1, nv - 1) if rng.chance(0.85) else nv
        if nv >= 3 and rng.chance(0.6):
            m = rng.randint(2, nv - 1)
        n = rng.randint(5, 18)
        cls = "dyadic" if kind == "cum_diff" and rng.chance(0.6) else "positive"
        start = gen_start(rng, f)
        k = -rng.choice([1, 1, 2, 3])
        direction = rng.choice(["forward", "backward"])
        lo, hi = start, start + n - 1
        if direction == "forward":
            a = rng.randint(min(lo - k, hi), hi); b = rng.randint(a, hi)
            shared = range(a + k, a)            # the periods the recursion takes from `initial`
        else:
            a = rng.randint(lo, max(lo, hi + k)); b = rng.randint(lo, a)
            shared = range(a + 1, a - k + 1)
        cols = [gen_values(rng, n, cls, f) for _ in range(nv)]
        for j in range(m, nv):
            for t in shared:
                if lo <= t <= hi:
                    cols[j][t - lo] = cols[m - 1][t - lo]
        cases.append({"op": "variants", "kind": kind, "freq": f, "start": start, "shift": k, "direction": direction,
                      "span": [a, b], "initial_variants": m, "values": [list(r) for r in zip(*cols)]})
    return cases


# ---------------------------------------------------------------------------------------
# whole multi-variant series through the model (ops mchange / mconv / mcum): rows shared by the variants, trim over
# ALL variants, shift arguments of any Python type
# ---------------------------------------------------------------------------------------

def canon_mseries(c: str, y) -> str:
    """start + every column; non-finite -> nan; leading/trailing rows that are nan in every variant dropped"""
    if y.start is None or y.data.size == 0:
        return "empty"
    cols = [[enc_cell(c, float(v)) for v in y.data[:, j]] for j in range(y.data.shape[1])]
    n = len(cols[0])
    lo, hi = 0, n
    while lo < hi and all(col[lo] == "nan" for col in cols):
        lo += 1
    while hi > lo and all(col[hi - 1] == "nan" for col in cols):
        hi -= 1
    if lo == hi:
        return "empty"
    return f"{LETTER[type(y.start)]}:{int(y.start.serial) + lo}:" + "|".join(",".join(col[lo:hi]) for col in cols)


def canon_model_mline(b: str) -> str:
    if "inf" not in b or b.count(":") != 2:
        return b
    f, start, body = b.split(":")
    cols = [["nan" if x == "inf" else x for x in col.split(",")] for col in body.split("|")]
    n = len(cols[0])
    lo, hi = 0, n
    while lo < hi and all(col[lo] == "nan" for col in cols):
        lo += 1
    while hi > lo and all(col[hi - 1] == "nan" for col in cols):
        hi -= 1
    return "empty" if lo == hi else f"{f}:{int(start) + lo}:" + "|".join(",".join(col[lo:hi]) for col in cols)


def mlines_agree(c: str, a: str, b: str, exact: bool) -> bool:
    b = canon_model_mline(b)
    if a == b:
        return True
    if exact:
        return False
    pa, pb = a.split(":"), b.split(":")
    if len(pa) != 3 or len(pb) != 3 or pa[:2] != pb[:2]:
        return False
    ca, cb = pa[2].split("|"), pb[2].split("|")
    if len(ca) != len(cb):
        return False
    return all(lines_agree(c, "", f"X:0:{u}", f"X:0:{v}", False) for u, v in zip(ca, cb))


SHIFTARGS = [("f=-1/1", -1.0), ("f=-2/1", -2.0), ("f=-3/2", -1.5), ("f=0/1", 0.0), ("f=1/1", 1.0), ("s=foo", "foo"), ("s=YOY", "YOY"),
             ("0", 0), ("2", 2)]


def gen_shiftarg(rng, f: str):
    """(word for the model, Python value): mostly negative ints and keywords, sometimes floats / other strings / leads"""
    r = rng.random()
    if r < 0.12:
        return rng.choice(SHIFTARGS)
    sh = gen_shift(rng, f)
    return (str(sh), sh)


def gen_m_cases(ctx: Ctx, rng, count: int):
    cases = []
    for _ in range(count):
        f = rng.weighted([("Q", 4), ("M", 3), ("Y", 2), ("H", 2), ("D", 1), ("I", 2)])
        nv = rng.weighted([(1, 1), (2, 3), (3, 3), (4, 1)])
        n = rng.randint(3, 18)
        start = gen_start(rng, f)
        what = rng.weighted([("mchange", 5), ("mconv", 1), ("mcum", 4)])
        if what == "mchange":
            kind = rng.choice(FLEX + FLEX + ANNUAL)
            cls = "dyadic" if kind in ("diff", "adiff") and rng.chance(0.7) else ("zeros" if rng.chance(0.08) else "positive")
        elif what == "mconv":
            kind = rng.choice(CONV)
            cls = "positive"
        else:
            kind = rng.choice(CUMS)
            cls = "dyadic" if kind == "cum_diff" and rng.chance(0.7) else "positive"
        cols = []
        for j in range(nv):
            col = punch(rng, gen_values(rng, n, cls, f), rng.choice([0.0, 0.0, 0.15]), False)
            # variants missing at DIFFERENT edges (and sometimes entirely)
            for i in range(rng.choice([0, 0, 1, 2, 3])):
                if i < n: col[i] = None
            for i in range(rng.choice([0, 0, 1, 2, 3])):
                if i < n: col[n - 1 - i] = None
            if rng.chance(0.04):
                col = [None] * n
            cols.append(col)
        word, val = gen_shiftarg(rng, f)
        case = {"op": what, "kind": kind, "freq": f, "start": start, "shiftword": word, "shift": val,
                "values": [list(r) for r in zip(*cols)], "exact": cls == "dyadic"}
        if what == "mcum":
            lo, hi = start, start + n - 1
            k = -val if isinstance(val, int) and not isinstance(val, bool) and val < 0 else 1
            direction = rng.choice(["forward", "forward", "backward"])
            sp = rng.weighted([("explicit", 6), ("default", 2 if direction == "forward" else 0), ("open", 1 if direction == "forward" else 0)])
            if sp == "default":
                case["span"] = None
            elif sp == "open":
                case["span"] = [None if rng.chance(0.5) else lo + k, None if rng.chance(0.5) else hi, 1]
            elif direction == "forward":
                a = rng.randint(min(lo + k, hi), hi); case["span"] = [a, rng.randint(a, hi), rng.choice([1, 1, 1, 2])]
            else:
                a = rng.randint(lo, max(lo, hi - k)); case["span"] = [a, rng.randint(lo, a), -1]
            m = rng.weighted([(max(1, nv - 1), 3), (nv, 3), (1, 1)])
            ik = rng.weighted([("series", 6), ("list", 2), ("scalar", 1), ("default", 1)])
            # the change series is the implementation's own change of `cols` (or, sometimes, the data themselves)
            case["change_of_values"] = rng.chance(0.8)
            if ik == "series":
                icols = [list(c) for c in cols[:m]] if rng.chance(0.6) else [gen_values(rng, n, cls, f) for _ in range(m)]
                case["initial"] = {"kind": "series", "start": start + rng.choice([0, 0, 0, -1, 1]), "values": [list(r) for r in zip(*icols)]}
            elif ik == "list":
                case["initial"] = {"kind": "list", "values": [rng.dyadic(1, 6, 2) for _ in range(m)]}
            elif ik == "scalar":
                case["initial"] = {"kind": "scalar", "value": rng.dyadic(1, 6, 2)}
            else:
                case["initial"] = {"kind": "default"}
        cases.append(case)
        ctx.count(f"m:{what}:{kind}")
        ctx.count(f"m_variants:{nv}")
        ctx.count("m_shiftarg:" + ("int<0" if isinstance(val, int) and val < 0 else "int>=0" if isinstance(val, int) else
                                   "float" if isinstance(val, float) else "keyword" if val in KEYWORDS else "other-string"))
    return cases


def run_m(ctx: Ctx, cases, stream="multi"):
    lines, impl, metas = [], [], []
    for case in cases:
        f, start, kind, what = case["freq"], case["start"], case["kind"], case["op"]
        rows = rows_of(case)
        nv = len(rows[0])
        c = "f" if kind in NEEDS_FLOAT or not case.get("exact") else "q"
        x = make_series(f, start, rows)
        if x.start is None:
            continue        # (an all-missing block is `Series()`: no variants to speak of)
        colw = lambda ser: [enc_series(c, f, int(ser.start.serial), [float(v) for v in ser.data[:, j]]) for j in range(ser.data.shape[1])]
        try:
            with warnings.catch_warnings(), np.errstate(all="ignore"):
                warnings.simplefilter("ignore")
                if what == "mchange":
                    line = f"mchange {c} {kind} {case['shiftword']} " + " ".join(colw(x))
                    y = getattr(ir, kind)(x) if kind in ANNUAL else getattr(ir, kind)(x, case["shift"])
                elif what == "mconv":
                    line = f"mconv {c} {kind} " + " ".join(colw(x))
                    y = getattr(ir, kind)(x)
                else:
                    ch = x
                    if case.get("change_of_values"):
                        try:
                            ch = getattr(ir, kind[4:])(x, case["shift"] if isinstance(case["shift"], int) and case["shift"] < 0 or case["shift"] in KEYWORDS else -1)
                        except Exception:
                            ch = x
                    if ch.start is None or ch.data.shape[1] != nv or np.any(np.isinf(ch.data)):
                        continue        # (an `inf` in the change series is `missing` on the pipe: not the same series any more)
                    ini = case["initial"]
                    if ini["kind"] == "series":
                        irows = [[NAN if v is None else float(v) for v in r] for r in ini["values"]]
                        iw = [enc_series(c, f, ini["start"], [r[i] for r in irows]) for i in range(len(irows[0]))]
                        iv = make_series(f, ini["start"], ini["values"])
                        if iv.start is None or iv.data.shape[1] != len(irows[0]):
                            continue
                    elif ini["kind"] == "list":
                        iw = ["v=" + enc_cell(c, v) for v in ini["values"]]; iv = [float(v) for v in ini["values"]]
                    elif ini["kind"] == "scalar":
                        iw = ["v=" + enc_cell(c, ini["value"])]; iv = float(ini["value"])
                    else:
                        iw = ["none"]; iv = None
                    sp = case["span"]
                    spw = "none" if sp is None else f"{f}:{'-' if sp[0] is None else sp[0]}:{'-' if sp[1] is None else sp[1]}:{sp[2]}"
                    line = f"mcum {c} {kind} {case['shiftword']} {spw} {nv} " + " ".join(colw(ch)) + " " + " ".join(iw)
                    span = None if sp is None else ir.Span(None if sp[0] is None else CLS[f](sp[0]), None if sp[1] is None else CLS[f](sp[1]), sp[2])
                    y = getattr(ir, kind)(ch, case["shift"], initial=iv, span=span)
            out = canon_mseries(c, y)
        except Exception as e:
            out = err_kind(e)
        lines.append(line); impl.append(out); metas.append((c, case))
    model = ctx.model("C13", lines)
    ctx.evaluations += len(lines)
    for out in impl:
        ctx.count(f"impl_reply:{stream}:" + (out if out.startswith("err") or out in ("empty", "bad-op") else "series"))
    if lines:
        ctx.sample({"stream": stream, "request": lines[0][:400], "implementation": impl[0][:300]})
    if model is None:
        return
    ctx.streams_compared[stream] = ctx.streams_compared.get(stream, 0) + len(lines)
    for line, (c, case), a_, b_ in zip(lines, metas, impl, model):
        if not mlines_agree(c, a_, b_, bool(case.get("exact")) and case["kind"] in ("diff", "adiff", "cum_diff") and c == "q"
                            and case.get("initial", {}).get("kind") != "series_random"):
            if len([d for d in ctx.disagreements if d["stream"] == stream]) < 25:
                ctx.disagree(stream, {**case, "line": None, "request": line[:600]}, a_, b_)
        elif a_.count(":") == 2:
            edges = tuple(sorted(set((col.split(",")[0] == "nan", col.split(",")[-1] == "nan") for col in a_.split(":")[2].split("|"))))
            ctx.nontriv(("multi", case["op"], case["kind"], case["freq"], len(case["values"][0]), edges))


# ---------------------------------------------------------------------------------------
# the same argument objects reused across several calls
# ---------------------------------------------------------------------------------------

def span_state(sp):
    return (repr(sp._start), repr(sp._end), sp._step, bool(sp.needs_resolve))


def series_state(x):
    return (None if x.start is None else (type(x.start).__name__, int(x.start.serial)), x.data.shape, x.data.tobytes())


def oracle_reuse(ctx: Ctx, case):
    """one Span object, one initial series and (per function) one change series, created once and handed to a sequence of
    cumulation calls: every call must leave its arguments as they were and return what a call with fresh arguments returns
    -- in particular the round trip must hold on every call, not only on the first"""
    f, start, k, direction = case["freq"], case["start"], case["shift"], case["direction"]
    rows = rows_of(case)
    nv = len(rows[0])
    x = make_series(f, start, rows)
    ctx.evaluations += 1

    def fresh_span():
        sp = case["span"]
        if sp is None:
            return None
        a, b, st = sp
        return ir.Span(None if a is None else CLS[f](a), None if b is None else CLS[f](b), st)

    span = fresh_span()
    changes = {}
    with warnings.catch_warnings(), np.errstate(all="ignore"):
        warnings.simplefilter("ignore")
        for i, kind in enumerate(case["calls"]):
            site = f"reuse-{kind}"
            try:
                if kind not in changes:
                    changes[kind] = getattr(ir, kind[4:])(x, k)
                ch = changes[kind]
                before = (None if span is None else span_state(span), series_state(x), series_state(ch))
                y = getattr(ir, kind)(ch, k, initial=x, span=span)
                after = (None if span is None else span_state(span), series_state(x), series_state(ch))
                ref = getattr(ir, kind)(getattr(ir, kind[4:])(make_series(f, start, rows), k), k,
                                        initial=make_series(f, start, rows), span=fresh_span())
            except Exception as e:
                ctx.fail(site, case, f"call #{i + 1} ({kind}) raises {e!r}")
                return
            if before != after:
                what = [n for n, u, v in zip(("span", "initial", "change series"), before, after) if u != v]
                ctx.fail(site, case, f"call #{i + 1} ({kind}) changed its argument(s) {what}: span {before[0]} -> {after[0]}")
                return
            gy, gr = table_of(y), table_of(ref)
            if set(gy) != set(gr) or any(not close(float(u), float(v)) for t in gy for u, v in zip(gy[t], gr[t])):
                ctx.fail(site, case, f"call #{i + 1} ({kind}) with the reused span/initial/change objects differs from the same call with fresh objects "
                                     f"(reused: serials {min(gy, default=None)}..{max(gy, default=None)}, fresh: {min(gr, default=None)}..{max(gr, default=None)})")
                return
            if case.get("roundtrip"):
                lo, hi = case["roundtrip"]
                for t in range(lo, hi + 1):
                    for j in range(nv):
                        g = float(gy[t][j]) if t in gy else NAN
                        if not close(g, rows[t - start][j]):
                            ctx.fail(site, case, f"call #{i + 1} ({kind}): period serial {t} variant {j}: round trip gives {g!r}, original value {rows[t - start][j]!r}")
                            return
    ctx.nontriv(("reuse", tuple(case["calls"]), f, k, direction, case["span"] is None or case["span"][0] is None))


def oracle_reuse_change(ctx: Ctx, case):
    """the functional forms leave the input series alone, and the in-place method gives the same result; several calls on one object"""
    f, start = case["freq"], case["start"]
    rows = rows_of(case)
    x = make_series(f, start, rows)
    ctx.evaluations += 1
    with warnings.catch_warnings(), np.errstate(all="ignore"):
        warnings.simplefilter("ignore")
        for i, (kind, shift) in enumerate(case["calls"]):
            site = f"reuse-{kind}"
            try:
                before = series_state(x)
                y = getattr(ir, kind)(x) if kind in ANNUAL + CONV else getattr(ir, kind)(x, shift)
                after = series_state(x)
                z = make_series(f, start, rows)
                getattr(z, kind)() if kind in ANNUAL + CONV else getattr(z, kind)(shift)
            except Exception as e:
                ctx.fail(site, case, f"call #{i + 1} ({kind}, {shift}) raises {e!r}")
                return
            if before != after:
                ctx.fail(site, case, f"call #{i + 1}: irispie.{kind}(x, …) changed x")
                return
            gy, gz = table_of(y), table_of(z)
            if set(gy) != set(gz) or any(not close(float(u), float(v)) for t in gy for u, v in zip(gy[t], gz[t])):
                ctx.fail(site, case, f"call #{i + 1}: irispie.{kind}(x, {shift}) on a reused x differs from x.{kind}({shift}) on a fresh copy")
                return


def gen_reuse_cases(ctx: Ctx, rng, count: int):
    cases = []
    for _ in range(count):
        f = rng.weighted([("Q", 4), ("M", 3), ("Y", 2), ("H", 2), ("D", 1), ("I", 2)])
        nv = rng.weighted([(1, 2), (2, 2), (3, 1)])
        n = rng.randint(6, 20)
        start = gen_start(rng, f)
        if rng.chance(0.2):
            calls = []
            for _ in range(rng.randint(2, 5)):
                kind = rng.choice(FLEX + ANNUAL + ["roc_from_pct", "pct_from_roc"])
                calls.append([kind, -rng.randint(1, 3) if rng.chance(0.7) or f == "I" else rng.choice(KEYWORDS)])
            cols = [gen_values(rng, n, "positive", f) for _ in range(nv)]
            cases.append({"op": "reuse_change", "freq": f, "start": start, "calls": calls, "values": [list(r) for r in zip(*cols)]})
            continue
        k = -rng.choice([1, 1, 2, 3])
        direction = rng.choice(["forward", "backward", "backward"])
        lo, hi = start, start + n - 1
        cols = [gen_values(rng, n, "positive", f) for _ in range(nv)]
        if direction == "forward":
            how = rng.weighted([("explicit", 5), ("open", 2), ("none", 1)])
            if how == "explicit":
                a = rng.randint(lo - k, hi); b = rng.randint(a, hi)
                span, rt = [a, b, rng.choice([1, 1, 2])], [a, b]
            elif how == "open":
                span, rt = [None, None, 1], None      # resolved against each change series; the caller's span must stay open
            else:
                span, rt = None, [lo - k, hi]
            if span and span[2] != 1:
                rt = None       # (round trip on a stepped span: only the periods of the span; checked against the fresh call instead)
        else:
            a = rng.randint(lo, hi + k); b = rng.randint(lo, a)
            span, rt = [a, b, -1], [b, a]
        # the same function twice, a loop over all four, or a random sequence
        seq = rng.weighted([("twice", 2), ("all", 3), ("random", 2)])
        calls = [rng.choice(CUMS)] * 2 if seq == "twice" else list(CUMS) if seq == "all" else [rng.choice(CUMS) for _ in range(rng.randint(2, 5))]
        if seq == "all" and rng.chance(0.5):
            rng.shuffle(calls)
        cases.append({"op": "reuse", "freq": f, "start": start, "shift": k, "direction": direction, "span": span, "roundtrip": rt,
                      "calls": calls, "values": [list(r) for r in zip(*cols)]})
        ctx.count(f"reuse:{direction}:{'none' if span is None else 'open' if span[0] is None else 'explicit'}")
    return cases


# ---------------------------------------------------------------------------------------
# one function, several spellings (positional / keyword / default arguments, functional form / in-place method)
# ---------------------------------------------------------------------------------------

def keyword_allowed(kind: str, name: str) -> bool:
    import inspect
    try:
        p = inspect.signature(getattr(ir.Series, kind)).parameters
    except (TypeError, ValueError):
        return False
    if name in p:
        return p[name].kind in (inspect.Parameter.POSITIONAL_OR_KEYWORD, inspect.Parameter.KEYWORD_ONLY)
    return any(q.kind is inspect.Parameter.VAR_KEYWORD for q in p.values())


def same_tables(y, z) -> bool:
    gy, gz = table_of(y), table_of(z)
    return set(gy) == set(gz) and all(len(gy[t]) == len(gz[t]) and all(close(float(u), float(v)) for u, v in zip(gy[t], gz[t])) for t in gy)


def oracle_spellings(ctx: Ctx, case):
    """every way of writing the same call gives the same series: positional vs keyword arguments, omitted arguments vs their
    documented defaults, `irispie.f(x, …)` vs `x.copy().f(…)`"""
    f, start, kind = case["freq"], case["start"], case["kind"]
    rows = rows_of(case)
    x = make_series(f, start, rows)
    if x.start is None:
        return
    ctx.evaluations += 1
    site = f"spelling-{kind}"
    fn = getattr(ir, kind)

    def method(*a, **kw):
        z = make_series(f, start, rows) if kind not in CUMS else ch.copy()
        getattr(z, kind)(*a, **kw)
        return z

    spellings = []
    with warnings.catch_warnings(), np.errstate(all="ignore"):
        warnings.simplefilter("ignore")
        try:
            if kind in CUMS:
                k = case["shift"]
                ch = getattr(ir, kind[4:])(x, k)
                sp = case["span"]
                mk = lambda: None if sp is None else ir.Span(CLS[f](sp[0]), CLS[f](sp[1]), sp[2])
                base = fn(ch, k, x, mk())
                spellings = [("shift positional, initial= span=", lambda: fn(ch, k, initial=x, span=mk())),
                             ("shift= initial= span=", lambda: fn(ch, shift=k, initial=x, span=mk())),
                             ("span= initial= shift= (reordered)", lambda: fn(ch, span=mk(), initial=x, shift=k)),
                             ("shift, initial positional, span=", lambda: fn(ch, k, x, span=mk())),
                             ("method, positional", lambda: method(k, x, mk())),
                             ("method, keywords", lambda: method(shift=k, initial=x, span=mk()))]
                if k == -1:
                    spellings.append(("shift omitted (default -1)", lambda: fn(ch, initial=x, span=mk())))
                if sp is None:
                    spellings.append(("span omitted", lambda: fn(ch, k, x)))
                    spellings.append(("span=None", lambda: fn(ch, k, x, None)))
            elif kind in FLEX:
                k = case["shift"]
                base = fn(x, k)
                spellings = [("method", lambda: method(k))]
                if keyword_allowed(kind, "shift"):
                    spellings += [("shift=", lambda: fn(x, shift=k)), ("method, shift=", lambda: method(shift=k))]
                if k == -1:
                    spellings.append(("shift omitted (default -1)", lambda: fn(x)))
            else:
                base = fn(x)
                spellings = [("method", lambda: method())]
        except Exception as e:
            ctx.fail(site, case, f"{kind}: the plain positional call raises {e!r}")
            return
        for name, call in spellings:
            try:
                y = call()
            except Exception as e:
                ctx.fail(site, case, f"{kind} written as [{name}] raises {e!r} although the positional call works")
                return
            if not same_tables(base, y):
                ctx.fail(site, case, f"{kind} written as [{name}] differs from the positional call "
                                     f"(serials {min(table_of(y), default=None)}..{max(table_of(y), default=None)} vs {min(table_of(base), default=None)}..{max(table_of(base), default=None)})")
                return
    ctx.nontriv(("spelling", kind, f, len(spellings)))


def gen_spelling_cases(ctx: Ctx, rng, count: int):
    cases = []
    for _ in range(count):
        f = rng.weighted([("Q", 4), ("M", 3), ("Y", 2), ("H", 2), ("D", 1), ("I", 2)])
        kind = rng.choice(FLEX + ANNUAL + CONV + CUMS + CUMS)
        nv = rng.weighted([(1, 2), (2, 1)])
        n = rng.randint(5, 16)
        start = gen_start(rng, f)
        cols = [gen_values(rng, n, "positive", f) for _ in range(nv)]
        case = {"op": "spelling", "kind": kind, "freq": f, "start": start, "values": [list(r) for r in zip(*cols)]}
        if kind in FLEX or kind in CUMS:
            case["shift"] = -1 if rng.chance(0.4) else -rng.randint(2, 3)
        if kind in CUMS:
            lo, hi, k = start, start + n - 1, -case["shift"]
            how = rng.weighted([("none", 2), ("forward", 3), ("backward", 3)])
            if how == "none":
                case["span"] = None
            elif how == "forward":
                a = rng.randint(lo + k, hi); case["span"] = [a, rng.randint(a, hi), 1]
            else:
                a = rng.randint(lo, hi - k); case["span"] = [a, rng.randint(lo, a), -1]
        cases.append(case)
        ctx.count(f"spelling:{kind}")
    return cases


# ---------------------------------------------------------------------------------------
# change-then-cumulate round trip with KEYWORD shifts (forward), regular and daily frequencies, multi-year spans
# ---------------------------------------------------------------------------------------

def oracle_keyword_roundtrip(ctx: Ctx, case):
    """cum_X(X(x, kw), kw, initial=x, span) == x on a forward unit-step span, kw in yoy/soy/eopy/tty, when x has no missing value from
    the earliest reference period of the span to its end (model theorem `inverts_forward_keyword`; the reference periods are those
    of the documented change formulas: t-a, first segment of the year, last segment of the previous year, t-1 within the year)"""
    f, start, kind, kw = case["freq"], case["start"], case["kind"], case["shift"]
    rows = rows_of(case)
    nv = len(rows[0])
    a, b = case["span"]
    x = make_series(f, start, rows)
    ctx.evaluations += 1
    site = f"roundtrip-keyword-{kind}"
    refs = [r for r in (ref_serial(f, t, kw) for t in range(a, b + 1)) if r is not None]
    lo = min(refs + [a])
    if lo < start or b > start + len(rows) - 1:
        return
    try:
        with warnings.catch_warnings(), np.errstate(all="ignore"):
            warnings.simplefilter("ignore")
            ch = getattr(ir, kind[4:])(x, kw)
            y = getattr(ir, kind)(ch, kw, initial=x, span=ir.Span(CLS[f](a), CLS[f](b)))
    except Exception as e:
        ctx.fail(site, case, f"{kind}({kind[4:]}(x, {kw!r}), {kw!r}, initial=x, span) raises {e!r}")
        return
    got = table_of(y)
    for t in range(a, b + 1):
        for j in range(nv):
            g = float(got[t][j]) if t in got else NAN
            want = rows[t - start][j]
            if not close(g, want):
                ctx.fail(site, case, f"period serial {t} variant {j} (reference serial {ref_serial(f, t, kw)}): round trip with shift {kw!r} gives {g!r}, original value {want!r}")
                return
    ctx.nontriv(("roundtrip-keyword", kind, f, kw, any(ref_serial(f, t, "tty") is None for t in range(a, b + 1))))


def gen_keyword_roundtrip_cases(ctx: Ctx, rng, count: int):
    cases = []
    for i in range(count):
        daily = rng.chance(0.2)
        f = "D" if daily else rng.weighted([("Q", 4), ("M", 4), ("H", 2), ("Y", 2)])
        kw = rng.choice(KEYWORDS)
        kind = rng.choice(CUMS)
        nv = rng.weighted([(1, 3), (2, 1)])
        cls = "dyadic" if kind == "cum_diff" and rng.chance(0.5) else "positive"
        if daily:
            # spans around a turn of the year or inside the year after a leap year (where "the same day last year" is 366 days back)
            year = rng.choice([2020, 2021, 2021, 2024, 2025, 2025, 2023])
            a = dt.date(year, rng.choice([1, 1, 2, 3, 6, 12]), rng.randint(1, 28)).toordinal() - (rng.randint(0, 20) if rng.chance(0.3) else 0)
            b = a + rng.randint(3, 45)
            start = a - 366 - 366 * (1 if kw in ("soy", "eopy") and rng.chance(0.2) else 0) - rng.randint(3, 10)
        else:
            v = FVAL[f]
            years = rng.randint(1, 3)
            a = BASE[f] + rng.randint(-2 * v, 2 * v)
            b = a + rng.randint(max(1, v - 1), years * v + 2)        # mostly containing at least one start-of-year period
            start = a - 2 * v - rng.randint(0, 3)
        n = b - start + 1 + rng.randint(0, 3)
        cols = [gen_values(rng, n, cls, f) for _ in range(nv)]
        cases.append({"op": "keyword_roundtrip", "kind": kind, "freq": f, "start": start, "shift": kw, "span": [a, b],
                      "values": [list(r) for r in zip(*cols)]})
        ctx.count(f"keyword_roundtrip:{f}:{kw}")
    return cases


FIXED_ORACLE_CASES = [
    # one deterministic round trip per cumulation function and direction, and the five conversion helpers (quarterly)
    *[{"op": "roundtrip", "kind": kind, "freq": "Q", "start": 8081, "shift": k, "direction": d, "span": sp,
       "values": [[1.0], [2.0], [4.0], [8.0], [16.0], [32.0], [64.0], [128.0], [256.0]]}
      for kind in CUMS for (k, d, sp) in ((-1, "forward", None), (-3, "forward", [8085, 8088]), (-2, "backward", [8086, 8082]))],
    *[{"op": "conv", "kind": kind, "freq": "Q", "start": 8081, "shift": -1,
       "values": [[1.0], [2.0], [4.0], [8.0], [16.0], [32.0]]} for kind in CONV],
]


# ---------------------------------------------------------------------------------------
# entry points
# ---------------------------------------------------------------------------------------

def run_lines(ctx: Ctx, stream: str, triples):
    """triples: (kind, carrier, line, exact)"""
    lines = [t[2] for t in triples]
    impl = [impl_eval(l) for l in lines]
    model = ctx.model("C13", lines)
    ctx.evaluations += len(lines)
    for (kind, c, line, _), out in list(zip(triples, impl))[:: max(1, len(lines) // 2)][:2]:
        ctx.sample({"stream": stream, "request": line[:400], "implementation": out[:300]})
    for out in impl:
        ctx.count(f"impl_reply:{stream}:" + (out if out.startswith("err") or out in ("empty", "bad-op") else "series"))
    if model is None:
        return
    ctx.streams_compared[stream] = ctx.streams_compared.get(stream, 0) + len(lines)
    for (kind, c, line, exact), a, b in zip(triples, impl, model):
        if exact:
            ctx.count(f"class_D_exact_lines:{stream}")
        if not lines_agree(c, kind, a, b, exact):
            if len([d for d in ctx.disagreements if d["stream"] == stream]) < 25:
                ctx.disagree(stream, {"line": line, "exact": exact}, a, b)
            else:
                ctx.count(f"disagreements_not_listed:{stream}")
        elif ":" in a and a.count(",") >= 2:
            ws = line.split()
            ctx.nontriv((ws[0], ws[2], ws[3] if ws[0] != "conv" else "", a.split(":")[0], "nan" in a))


def replay_corpus(ctx: Ctx):
    import os, json
    d = os.path.join(os.path.dirname(os.path.dirname(os.path.abspath(__file__))), "corpus", "C13")
    if not os.path.isdir(d):
        return
    for name in sorted(os.listdir(d)):
        if name.endswith(".json"):
            payload = json.load(open(os.path.join(d, name)))
            replay(ctx, payload)
            ctx.count("corpus_replays")


def run(ctx: Ctx):
    ctx.rule = ("correspondence lines: random series over six frequencies (dyadic / positive random-walk / zero-ridden data, interior and "
                "leading/trailing missing values), every change function with negative and keyword shifts, conversion helpers, cumulations "
                "(round trips of the implementation's own change series and free-standing ones; forward/backward, default/explicit/open/"
                "stepped/mixed-frequency/empty spans; series, scalar, default and misaligned initial conditions; malformed shifts). "
                "cumv: 2-4 variant change series with an initial of fewer variants, one model line per variant. "
                "oracle cases: 1-3 variants, formulas / conversions / round trips; round trips with an initial of fewer variants; call sequences "
                "reusing one Span / initial / change object. distinct_nontrivial counts distinct "
                "(operation, function, shift or direction, frequency, has-missing) classes among agreeing correspondence lines with >= 3 "
                "cells and distinct (operation, function, frequency, shift, direction, variants, ...) classes among oracle cases with >= 3 periods")
    replay_corpus(ctx)
    rng = ctx.rng.fork("lines")
    run_lines(ctx, "change", gen_change_lines(ctx, rng.fork("change"), ctx.n(4000, 80000)))
    run_lines(ctx, "conv", gen_conv_lines(ctx, rng.fork("conv"), ctx.n(600, 12000)))
    run_lines(ctx, "cum", gen_cum_lines(ctx, rng.fork("cum"), ctx.n(3500, 70000)))
    run_cumv(ctx, gen_cumv_cases(ctx, rng.fork("cumv"), ctx.n(400, 8000)))
    run_m(ctx, gen_m_cases(ctx, rng.fork("multi"), ctx.n(800, 20000)))
    for case in FIXED_ORACLE_CASES:
        run_oracle_case(ctx, case)
    xrng = ctx.rng.fork("oracle-extra")
    extra = gen_variant_cases(ctx, xrng.fork("variants"), ctx.n(600, 12000)) + gen_reuse_cases(ctx, xrng.fork("reuse"), ctx.n(400, 8000)) \
        + gen_spelling_cases(ctx, xrng.fork("spelling"), ctx.n(500, 8000)) \
        + gen_keyword_roundtrip_cases(ctx, xrng.fork("keyword-roundtrip"), ctx.n(400, 6000))
    for case in extra:
        run_oracle_case(ctx, case)
        ctx.count("oracle:" + case["op"])
    for case in extra[:1] + extra[-1:]:
        ctx.sample({"stream": "oracle", "case": {**case, "values": case["values"][:4]}})
    orng = ctx.rng.fork("oracle")
    cases = gen_oracle_cases(ctx, orng, ctx.n(6000, 150000))
    for case in cases:
        run_oracle_case(ctx, case)
        ctx.count("oracle:" + case["op"])
    for case in cases[:2]:
        ctx.sample({"stream": "oracle", "case": {**case, "values": case["values"][:4]}})


def outside_quantifier(case) -> bool:
    """a correspondence line whose shift is a non-negative integer: the property quantifies over negative integer and keyword
    shifts only, so nothing the statement demands can fail on such an input"""
    if not (isinstance(case, dict) and isinstance(case.get("line"), str)):
        return False
    ws = case["line"].split()
    if len(ws) < 4 or ws[0] not in ("change", "cum"):
        return False
    try:
        return int(ws[3]) >= 0
    except ValueError:
        return False


def search(ctx: Ctx, seeds):
    """failing-input search on the real code when a tie broke: the oracles alone, bigger budget.  When every disagreement
    is about an input outside the property's quantifier (a non-negative integer shift: only the model's rejection clause
    `change_rejects_leads` / `validShift` is concerned) a short confirmation run is enough."""
    small = bool(seeds) and all(outside_quantifier(c) for c in seeds)
    ctx.extra["search_budget"] = "short (all disagreements are about non-negative integer shifts, outside the property's quantifier)" if small else "full"
    for case in FIXED_ORACLE_CASES:
        run_oracle_case(ctx, case)
    rng = ctx.rng.fork("search")
    # first the axes on which a rearranged-but-"equal" formula or a changed signature shows: magnitudes, spellings
    for case in gen_oracle_cases(ctx, rng.fork("magnitude"), 300 if small else 2500) + gen_spelling_cases(ctx, rng.fork("spelling"), 100 if small else 800) \
            + gen_keyword_roundtrip_cases(ctx, rng.fork("keyword-roundtrip"), 100 if small else 1200):
        run_oracle_case(ctx, case)
        if len(ctx.failures) >= 5:
            return
    for case in gen_variant_cases(ctx, rng.fork("variants"), 200 if small else 3000) + gen_reuse_cases(ctx, rng.fork("reuse"), 150 if small else 2000):
        run_oracle_case(ctx, case)
        if len(ctx.failures) >= 5:
            return
    for case in gen_oracle_cases(ctx, rng, 1500 if small else 20000):
        run_oracle_case(ctx, case)
        if len(ctx.failures) >= 5:
            break


def replay(ctx: Ctx, payload):
    cases = []
    if isinstance(payload.get("case"), dict) and payload["case"].get("line", "") is None:
        payload["case"].pop("line")
    for d in payload.get("disagreements", []):
        if isinstance(d.get("case"), dict) and d["case"].get("line", "") is None:
            d["case"].pop("line")
    if isinstance(payload.get("case"), dict):
        cases.append(payload["case"])
    cases += [c for c in payload.get("cases", []) if isinstance(c, dict)]
    # a "tie-no-longer-checks" replay carries the disagreeing request lines
    cases += [d["case"] for d in payload.get("disagreements", []) if isinstance(d.get("case"), dict)]
    if not cases:
        for c in FIXED_ORACLE_CASES:
            run_oracle_case(ctx, c)
        return
    for case in cases:
        if "line" in case:
            line = case["line"]
            ws = line.split()
            run_lines(ctx, "replay", [(ws[2], ws[1], line, bool(case.get("exact")))])
        elif case.get("op") == "cumv":
            run_cumv(ctx, [case], "replay")
        elif case.get("op") in ("mchange", "mconv", "mcum"):
            run_m(ctx, [case], "replay")
        elif "op" in case:
            run_oracle_case(ctx, case)
