/-
C02 — the system level around the differentiator: assembling Jacobian matrices from the scatter maps and the stacked AD
output (`fords/systems.py`, `jacobians/base.py`), the loop over parameter variants (`Simultaneous.systemize`), the evaluator
object with its point in force (`steadiers/evaluators.py`, `stacked_time/_evaluators.py`), the n-ary finite-difference rule
(`finite_differentiators._calculate_finite_derivatives`) and the terminal correction (`Terminator.terminate_jacobian`).
No Mathlib import: this file is loaded by the interpreted driver.
-/
import IrisVerif.Model.Expr

namespace IrisVerif.AD
open IrisVerif.Gen

/-! ### assembling a matrix from a map -/

/-- dense assembly `M = zeros; M[lhs] = td[rhs]` (numpy fancy assignment: a later entry overwrites an earlier one) -/
def scatterAssign {α : Type} (entries : List Entry) (td : Nat → Nat → α) (zero : α) (r c : Nat) : α :=
  entries.foldl (fun acc en => if en.lhsRow = r ∧ en.lhsCol = c then td en.rhsRow en.rhsCol else acc) zero

/-- triplet (COO) assembly: entries addressing the same cell add up (`scipy.sparse` constructors) -/
def scatterSum {α : Type} [Add α] (entries : List Entry) (td : Nat → Nat → α) (zero : α) (r c : Nat) : α :=
  entries.foldl (fun acc en => if en.lhsRow = r ∧ en.lhsCol = c then acc + td en.rhsRow en.rhsCol else acc) zero

section
variable {α : Type} [Add α] [Sub α] [Mul α] [Div α] [Neg α] [NatCast α] [IntCast α] [ADFun α]

/-- the derivative the walk returns for equation `e` in direction `j` of its wrt-list (`none` when rejected) -/
def adDiff (base : Nat → Int → α) (logly : Nat → Bool) (ext : Fn1 → α → α) (e : Expr α) (wrt : List Token) (j : Nat) : Option α :=
  match adEquation ⟨base, seedSystem wrt j, logly, ext⟩ e with
  | .ok (.atom _ d) => some d
  | _ => none

/-- `td` of `fords/systems.py`: one row per (equation, wrt-token), equations in system order -/
def adColumn (base : Nat → Int → α) (logly : Nat → Bool) (ext : Fn1 → α → α) (eqs : List (Expr α × List Token)) : List (Option α) :=
  eqs.flatMap (fun p => (List.range p.2.length).map (fun j => adDiff base logly ext p.1 p.2 j))

/-- `System.A` / `System.B` (without the dynamic-identity rows) of one variant: maps of `SystemMap`, scattered AD column -/
def systemAB (base : Nat → Int → α) (logly : Nat → Bool) (ext : Fn1 → α → α) (eqs : List (Expr α × List Token)) (tv : List Token)
    (zero : α) : Option ((Nat → Nat → α) × (Nat → Nat → α)) := do
  let col ← (adColumn base logly ext eqs).mapM id
  let offs ← rhsOffsets (eqs.map (fun p => p.2.length))
  let t := (eqs.map (·.2)).zip offs
  let td : Nat → Nat → α := fun r _ => col.getD r zero
  pure (scatterAssign (staticMap (tv.map some) t) td zero, scatterAssign (staticMap (laggedVector tv) t) td zero)

/-- all six derivative matrices of `fords/systems.py: System` for one variant (equation rows only), as `SystemMap` places them:
    one stacked AD column over transition then measurement equations, one offset list, the six column lists -/
structure SystemMats (α : Type) where
  A : Nat → Nat → α
  B : Nat → Nat → α
  D : Nat → Nat → α
  F : Nat → Nat → α
  G : Nat → Nat → α
  J : Nat → Nat → α

def systemAll (base : Nat → Int → α) (logly : Nat → Bool) (ext : Fn1 → α → α) (teqs meqs : List (Expr α × List Token))
    (tv shocks mvars mshocks : List Token) (zero : α) : Option (SystemMats α) := do
  let col ← (adColumn base logly ext (teqs ++ meqs)).mapM id
  let offs ← rhsOffsets ((teqs ++ meqs).map (fun p => p.2.length))
  let t := (teqs.map (·.2)).zip (offs.take teqs.length)
  let m := (meqs.map (·.2)).zip (offs.drop teqs.length)
  let td : Nat → Nat → α := fun r _ => col.getD r zero
  pure {
    A := scatterAssign (staticMap (tv.map some) t) td zero
    B := scatterAssign (staticMap (laggedVector tv) t) td zero
    D := scatterAssign (staticMap (shocks.map some) t) td zero
    F := scatterAssign (staticMap (mvars.map some) m) td zero
    G := scatterAssign (staticMap (tv.map some) m) td zero
    J := scatterAssign (staticMap (mshocks.map some) m) td zero }

end

/-! ### rows that receive the terminal-condition contribution -/

def insertNat (x : Nat) : List Nat → List Nat
  | [] => [x]
  | y :: ys => if x < y then x :: y :: ys else if x = y then y :: ys else y :: insertNat x ys

/-- `Terminator.terminate_jacobian`, first call: `sorted(set(terminal_block.tocoo().row))` — the rows of the STORED pattern of the
    columns beyond the regular wrt-spots (`nreg` of them). The pattern is the stacked-time map: it depends on the incidence of the
    equations only, never on the values at the evaluation point (explicitly stored zeros count) -/
def terminalRows (allSpots : List Token) (nreg : Nat) (cols : List Int) (eqs : List (List Token)) : List Nat :=
  (((stackedMap allSpots cols eqs).filter (fun en => decide (nreg ≤ en.lhsCol))).map (·.lhsRow)).foldr insertNat []

/-! ### the loop over parameter variants -/

/-- `[self._systemize(variant, …) for variant in self._variants]` -/
def systemizeVariants {V S : Type} (one : V → S) (variants : List V) : List S := variants.map one

/-! ### the evaluator object -/

inductive EvOp (P : Type) where
  | evalFunc (g : P)
  | evalJacob (g : P)
  | evalBoth (g : P)
  deriving Repr

inductive EvOut (F J : Type) where
  | func (f : F)
  | jacob (j : J)
  | both (f : F) (j : J)
  deriving Repr, DecidableEq

def EvOp.guess {P : Type} : EvOp P → P
  | .evalFunc g => g | .evalJacob g => g | .evalBoth g => g

def observe {P F J : Type} (fn : P → F) (jac : P → J) (point : P) : EvOp P → EvOut F J
  | .evalFunc _ => .func (fn point)
  | .evalJacob _ => .jacob (jac point)
  | .evalBoth _ => .both (fn point) (jac point)

/-- `SteadyEvaluator.eval / eval_func / eval_jacob`: `_update_steady_array(guess)` then evaluate at the steady array;
    the state is the point the steady array holds -/
def evStep {P F J : Type} (fn : P → F) (jac : P → J) (_point : P) (op : EvOp P) : P × EvOut F J :=
  (op.guess, observe fn jac op.guess op)

def evRun {P F J : Type} (fn : P → F) (jac : P → J) : P → List (EvOp P) → List (EvOut F J)
  | _, [] => []
  | s, op :: ops => (evStep fn jac s op).2 :: evRun fn jac (evStep fn jac s op).1 ops

/-- an evaluator that memoises the last guess BY VALUE and skips the update when the guess is unchanged -/
structure MemoState (P : Type) where
  point : P
  last : Option P

def memoStep {P F J : Type} [DecidableEq P] (fn : P → F) (jac : P → J) (s : MemoState P) (op : EvOp P) : MemoState P × EvOut F J :=
  let s' : MemoState P := if s.last = some op.guess then s else ⟨op.guess, some op.guess⟩
  (s', observe fn jac s'.point op)

def memoRun {P F J : Type} [DecidableEq P] (fn : P → F) (jac : P → J) : MemoState P → List (EvOp P) → List (EvOut F J)
  | _, [] => []
  | s, op :: ops => (memoStep fn jac s op).2 :: memoRun fn jac (memoStep fn jac s op).1 ops

/-! ### n-ary finite-difference rule -/

section
variable {α : Type} [Add α] [Sub α] [Mul α] [Div α] [NatCast α]

/-- `_calculate_finite_derivatives` for any number of arguments: `Σ_k (two-sided quotient of f in argument k, the other arguments at
    their values) · (inner derivative of argument k)`; `args` = `(value, diff, eps)` per argument. Structural form: the first argument is
    perturbed with the remaining ones at their values, then the rule continues with the first argument fixed at its value -/
def userCallNDiff (f : List α → α) : List (α × α × α) → α → α
  | [], zero => zero
  | (v, d, eps) :: rest, zero =>
    centralDiff (fun y => f (y :: rest.map (·.1))) v eps * d + userCallNDiff (fun tail => f (v :: tail)) rest zero

end

end IrisVerif.AD
