/-
Tie T for the matrix code of property C14 (trend filters): the hand-written executable model `Model/HP.lean` EQUALS
the definitions that `tools/gens/npmat_c14.py` regenerates on every run from `/repo/src/irispie/series/_ell_one.py`
(`Generated/EllOneGen.lean`) and `/repo/src/irispie/series/_hp.py` (`Generated/HpGen.lean`), for every number of
periods (and every smoothing parameter, every list of constraint positions).
-/
import IrisVerif.Props.GenTieCore
import IrisVerif.Model.HP
import IrisVerif.Generated.EllOneGen

namespace IrisVerif.GenTieC14

open IrisVerif IrisVerif.QMat IrisVerif.HP IrisVerif.GenTie IrisVerif.QMatNp

/-! ## `_ell_one.py`: the difference matrices of the l1 trend filter -/

theorem eye2_sub (n k : Nat) :
    eye2 ((n : Int) - (k : Int)) (n : Int) = QMat.ofFn (n - k) n (fun i j => if i = j then 1 else 0) := by
  unfold eye2
  have h1 : ((n : Int) - (k : Int)).toNat = n - k := by omega
  rw [h1, Int.toNat_natCast]

theorem sliceIdx_one (n : Nat) : sliceIdx n (1 : Int) = min 1 n := sliceIdx_natCast n 1
theorem sliceIdx_two (n : Nat) : sliceIdx n (2 : Int) = min 2 n := sliceIdx_natCast n 2
theorem sliceIdx_neg_one (n : Nat) : sliceIdx n (-(1 : Int)) = n - 1 := sliceIdx_neg n 1 (by omega)
theorem sliceIdx_neg_two (n : Nat) : sliceIdx n (-(2 : Int)) = n - 2 := sliceIdx_neg n 2 (by omega)

theorem eye2_sub_one (n : Nat) :
    eye2 ((n : Int) - 1) (n : Int) = QMat.ofFn (n - 1) n (fun i j => if i = j then 1 else 0) := eye2_sub n 1
theorem eye2_sub_two (n : Nat) :
    eye2 ((n : Int) - 2) (n : Int) = QMat.ofFn (n - 2) n (fun i j => if i = j then 1 else 0) := eye2_sub n 2

/-- **`_first_order_matrix_setup`**: the second component `D` is the model's first-difference matrix, for every number
of periods `n` (for `n = 0`, where numpy raises, both sides are the empty matrix) -/
theorem model_eq_generated_lonfD_first (n : Nat) :
    lonfD 1 n = (Gen.EllOne._first_order_matrix_setup (n : Int)).2 := by
  unfold Gen.EllOne._first_order_matrix_setup lonfD
  simp only [if_true]
  rw [eye2_sub_one]
  unfold QMatNp.setSlice
  simp only [ofFn_rows, ofFn_cols, lo, hi, sliceIdx_one]
  apply ofFn_congr
  intro i j hi' hj'
  have hn : min 1 n = 1 := by omega
  simp only [get_sub, get_slice, get_ofFn, slice_rows, slice_cols, ofFn_rows, ofFn_cols, lo, hi,
    sliceIdx_one, sliceIdx_neg_one, hn, Nat.sub_zero, Nat.zero_add]
  split_ifs <;> first | rfl | (exfalso; omega) | norm_num

/-- `D[:, k:] = E` -/
theorem get_setSlice_colsFrom (D E : QMat) (kz : Int) (k : Nat) (hk : kz = (k : Int)) (i j : Nat) (hi' : i < D.rows)
    (hj' : j < D.cols) :
    (QMatNp.setSlice D none none (some kz) none E).get i j = if k ≤ j then E.get i (j - k) else D.get i j := by
  subst hk
  rw [get_setSlice _ _ _ _ _ _ _ _ hi' hj']
  simp only [lo, hi, sliceIdx_natCast, Nat.sub_zero]
  by_cases h : k ≤ j
  · have hm : min k D.cols = k := by omega
    rw [hm, if_pos h, if_pos ⟨Nat.zero_le _, hi', h, hj'⟩]
  · rw [if_neg h, if_neg (by omega)]

/-- `D[:, k:]` -/
theorem get_slice_colsFrom (D : QMat) (kz : Int) (k : Nat) (hk : kz = (k : Int)) (i j : Nat) (hi' : i < D.rows)
    (hj' : k + j < D.cols) :
    (QMatNp.slice D none none (some kz) none).get i j = D.get i (k + j) := by
  subst hk
  rw [get_slice]
  simp only [lo, hi, sliceIdx_natCast, Nat.sub_zero, Nat.zero_add]
  have hm : min k D.cols = k := by omega
  rw [hm, if_pos ⟨hi', by omega⟩]

/-- `d[:, :-k]` -/
theorem get_slice_colsUpToNeg (d : QMat) (kz : Int) (k : Nat) (hk : kz = -(k : Int)) (hk0 : 0 < k) (i j : Nat)
    (hi' : i < d.rows) (hj' : j + k < d.cols) :
    (QMatNp.slice d none none none (some kz)).get i j = d.get i j := by
  subst hk
  rw [get_slice]
  simp only [lo, hi, sliceIdx_neg _ _ hk0, Nat.sub_zero, Nat.zero_add]
  rw [if_pos ⟨hi', by omega⟩]

/-- **`_second_order_matrix_setup`**: the second component `D` is the model's second-difference matrix
(`D[i,i] = 1, D[i,i+1] = -2, D[i,i+2] = 1`), for every number of periods -/
theorem model_eq_generated_lonfD_second (n : Nat) :
    lonfD 2 n = (Gen.EllOne._second_order_matrix_setup (n : Int)).2 := by
  unfold Gen.EllOne._second_order_matrix_setup lonfD
  simp only [show ¬ (2 = 1) by omega, if_false]
  rw [eye2_sub_two]
  generalize hd : QMat.ofFn (n - 2) n (fun i j => if i = j then (1 : Rat) else 0) = d
  have hdr : d.rows = n - 2 := by rw [← hd]; rfl
  have hdc : d.cols = n := by rw [← hd]; rfl
  have hdg : ∀ i j, i < n - 2 → j < n → d.get i j = if i = j then 1 else 0 := by
    intro i j hi' hj'; rw [← hd, get_ofFn_of_lt _ _ _ _ _ hi' hj']
  -- the first update
  generalize hD1 : QMatNp.setSlice d none none (some (1 : Int)) none
    (QMatNp.slice d none none (some (1 : Int)) none - QMat.smul 2 (QMatNp.slice d none none none (some (-(1 : Int))))) = D1
  have hD1r : D1.rows = n - 2 := by rw [← hD1]; exact hdr
  have hD1c : D1.cols = n := by rw [← hD1]; exact hdc
  have hD1g : ∀ i j, i < n - 2 → j < n → D1.get i j = if j = i then 1 else if j = i + 1 then -2 else 0 := by
    intro i j hi' hj'
    rw [← hD1, get_setSlice_colsFrom d _ 1 1 rfl i j (by omega) (by omega)]
    by_cases h1 : 1 ≤ j
    · rw [if_pos h1, get_sub]
      simp only [slice_rows, slice_cols, lo, hi, sliceIdx_one, hdr, hdc, Nat.sub_zero]
      have hm : min 1 n = 1 := by omega
      rw [hm, if_pos ⟨hi', by omega⟩, get_slice_colsFrom d 1 1 rfl i (j - 1) (by omega) (by omega), get_smul]
      simp only [slice_rows, slice_cols, lo, hi, sliceIdx_neg_one, hdr, hdc, Nat.sub_zero]
      rw [if_pos ⟨hi', by omega⟩, get_slice_colsUpToNeg d _ 1 rfl (by omega) i (j - 1) (by omega) (by omega),
        hdg i _ hi' (by omega), hdg i _ hi' (by omega)]
      split_ifs <;> first | rfl | (exfalso; omega) | norm_num
    · rw [if_neg h1, hdg i j hi' hj']
      split_ifs <;> first | rfl | (exfalso; omega)
  -- the second update
  unfold kEntry
  rw [← ofFn_get (QMatNp.setSlice D1 none none (some (2 : Int)) none _) (wellShaped_setSlice _ _ _ _ _ _)
    (show _ = n - 2 from hD1r) (show _ = n from hD1c)]
  apply ofFn_congr
  intro i j hi' hj'
  rw [get_setSlice_colsFrom D1 _ 2 2 rfl i j (by omega) (by omega)]
  by_cases h2 : 2 ≤ j
  · rw [if_pos h2, get_add]
    simp only [slice_rows, slice_cols, lo, hi, sliceIdx_two, hD1r, hD1c, Nat.sub_zero]
    have hm : min 2 n = 2 := by omega
    rw [hm, if_pos ⟨hi', by omega⟩, get_slice_colsFrom D1 2 2 rfl i (j - 2) (by omega) (by omega),
      get_slice_colsUpToNeg d _ 2 rfl (by omega) i (j - 2) (by omega) (by omega),
      hD1g i _ hi' (by omega), hdg i _ hi' (by omega)]
    split_ifs <;> first | rfl | (exfalso; omega) | norm_num
  · rw [if_neg h2, hD1g i j hi' hj']
    split_ifs <;> first | rfl | (exfalso; omega)

/-- the first components (`d`, the plain rectangular identity) are never used by `lonf`; for the record -/
theorem generated_d_first (n : Nat) :
    (Gen.EllOne._first_order_matrix_setup (n : Int)).1 = QMat.ofFn (n - 1) n (fun i j => if i = j then 1 else 0) := by
  unfold Gen.EllOne._first_order_matrix_setup
  exact eye2_sub_one n

end IrisVerif.GenTieC14
