/-
Refinement lemmas tying the executable model `IrisVerif.HP` (over `QMat`, core `Rat`) to the Mathlib-level
matrices of `IrisVerif.HPMatrix` / `Props/C14.lean`: entry formulas of `QMat.ofFn`, `QMat.mul`, `hpK`, `plainF`,
the bordered system matrix `sysMatrix` (closed form, block by block), the right-hand side, and what
`filterData` returns.
-/
import IrisVerif.Model.HP
import IrisVerif.Lemmas.HPMatrix
import Mathlib.Algebra.BigOperators.Group.Finset.Basic
import Mathlib.Algebra.BigOperators.Fin
import Mathlib.Data.Rat.Defs

namespace IrisVerif.HPModel

open IrisVerif IrisVerif.HP IrisVerif.HPMatrix Matrix

/-! ### `QMat` entry formulas -/

theorem get_ofFn (r c : Nat) (f : Nat → Nat → Rat) (i j : Nat) (hi : i < r) (hj : j < c) :
    (QMat.ofFn r c f).get i j = f i j := by
  simp [QMat.get, QMat.ofFn, hi, hj]

theorem get_ofFn_row_out (r c : Nat) (f : Nat → Nat → Rat) (i j : Nat) (hi : r ≤ i) :
    (QMat.ofFn r c f).get i j = 0 := by
  simp [QMat.get, QMat.ofFn, hi]

theorem get_ofFn_col_out (r c : Nat) (f : Nat → Nat → Rat) (i j : Nat) (hj : c ≤ j) :
    (QMat.ofFn r c f).get i j = 0 := by
  by_cases hi : i < r
  · simp [QMat.get, QMat.ofFn, hi, hj]
  · simp [QMat.get, QMat.ofFn, hi]

theorem foldl_sum (n : Nat) (f : Nat → Rat) :
    (List.range n).foldl (fun acc k => acc + f k) 0 = ∑ k ∈ Finset.range n, f k := by
  induction n with
  | zero => simp
  | succ n ih => rw [List.range_succ, List.foldl_append, ih, Finset.sum_range_succ]; simp

theorem get_mul (a b : QMat) (i j : Nat) (hi : i < a.rows) (hj : j < b.cols) :
    (a * b).get i j = ∑ k ∈ Finset.range a.cols, a.get i k * b.get k j := by
  show (QMat.mul a b).get i j = _
  unfold QMat.mul
  rw [get_ofFn _ _ _ _ _ hi hj, foldl_sum]

theorem get_transpose (a : QMat) (i j : Nat) (hi : i < a.cols) (hj : j < a.rows) :
    a.transpose.get i j = a.get j i := by
  unfold QMat.transpose; rw [get_ofFn _ _ _ _ _ hi hj]

theorem get_smul (k : Rat) (a : QMat) (i j : Nat) (hi : i < a.rows) (hj : j < a.cols) :
    (QMat.smul k a).get i j = k * a.get i j := by
  unfold QMat.smul; rw [get_ofFn _ _ _ _ _ hi hj]

/-! ### The second-difference matrix: entry formula by proof -/

/-- the model's `kEntry` is the theorem-level `kEntryK` over `ℚ` -/
theorem kEntry_eq (i j : Nat) : HP.kEntry i j = (kEntryK i j : ℚ) := by
  unfold HP.kEntry kEntryK; rfl

/-- **`hpK` entry formula**: `hpK n` is entrywise the second-difference matrix `Kmat n` -/
theorem hpK_get (n i j : Nat) (hi : i < n - 2) (hj : j < n) :
    (hpK n).get i j = (Kmat n : Matrix _ _ ℚ) ⟨i, hi⟩ ⟨j, hj⟩ := by
  unfold hpK Kmat
  rw [get_ofFn _ _ _ _ _ hi hj, kEntry_eq]

theorem hpK_rows (n : Nat) : (hpK n).rows = n - 2 := rfl
theorem hpK_cols (n : Nat) : (hpK n).cols = n := rfl

/-- `plainF n λ = λ KᵀK`, entrywise -/
theorem plainF_get (n : Nat) (lam : Rat) (i j : Nat) (hi : i < n) (hj : j < n) :
    (plainF n lam).get i j = (lam • ((Kmat n)ᵀ * Kmat n) : Matrix (Fin n) (Fin n) ℚ) ⟨i, hi⟩ ⟨j, hj⟩ := by
  unfold plainF
  rw [get_smul _ _ _ _ (by exact hi) (by exact hj), get_mul _ _ _ _ (by exact hi) (by exact hj)]
  rw [Matrix.smul_apply, Matrix.mul_apply, smul_eq_mul]
  congr 1
  show ∑ k ∈ Finset.range (n - 2), _ = _
  rw [← Fin.sum_univ_eq_sum_range (fun k => (hpK n).transpose.get i k * (hpK n).get k j) (n - 2)]
  refine Finset.sum_congr rfl (fun k _ => ?_)
  rw [get_transpose _ _ _ (by exact hi) (by exact k.isLt), hpK_get n k i k.isLt hi, hpK_get n k j k.isLt hj]
  rfl

theorem plainF_rows (n : Nat) (lam : Rat) : (plainF n lam).rows = n := rfl
theorem plainF_cols (n : Nat) (lam : Rat) : (plainF n lam).cols = n := rfl

/-! ### Bordering with constraint rows and columns -/

/-- entries of `hstack (vstack F R) Cc` where `R` holds the pattern rows and `Cc` the same patterns as columns -/
theorem get_border (F : QMat) (nr nc : Nat) (hnr : F.rows = nr) (hnc : F.cols = nc)
    (k : Nat) (pat : Nat → Nat → Rat) (i j : Nat) (hi : i < nr + k) (hj : j < nc + k) :
    (QMat.hstack (QMat.vstack F (QMat.ofFn k nc (fun a c => pat a c)))
        (QMat.ofFn (nr + k) k (fun r a => pat a r))).get i j
      = if j < nc then (if i < nr then F.get i j else pat (i - nr) j) else pat (j - nc) i := by
  subst hnr hnc
  have hvc : (QMat.vstack F (QMat.ofFn k F.cols (fun a c => pat a c))).cols = F.cols := rfl
  have hvr : (QMat.vstack F (QMat.ofFn k F.cols (fun a c => pat a c))).rows = F.rows + k := rfl
  unfold QMat.hstack
  rw [get_ofFn _ _ _ _ _ (by rw [hvr]; exact hi) (by rw [hvc]; exact hj), hvc]
  by_cases hjc : j < F.cols
  · simp only [hjc, if_true]
    unfold QMat.vstack
    rw [get_ofFn _ _ _ _ _ (by exact hi) (by exact hjc)]
    by_cases hir : i < F.rows
    · simp only [hir, if_true]
    · simp only [hir, if_false]
      rw [get_ofFn _ _ _ _ _ (by omega) hjc]
  · simp only [hjc, if_false]
    rw [get_ofFn _ _ _ _ _ (by exact hi) (by omega)]

theorem addLevel_rows (n : Nat) (F : QMat) (lw : List Nat) : (addLevel n F lw).rows = F.rows + lw.length := by
  unfold addLevel
  cases lw with
  | nil => simp
  | cons a l => simp [QMat.hstack, QMat.vstack, QMat.ofFn]

theorem addLevel_cols (n : Nat) (F : QMat) (lw : List Nat) : (addLevel n F lw).cols = F.cols + lw.length := by
  unfold addLevel
  cases lw with
  | nil => simp
  | cons a l => simp [QMat.hstack, QMat.vstack, QMat.ofFn]

theorem addChange_rows (F : QMat) (cw : List Nat) : (addChange F cw).rows = F.rows + cw.length := by
  unfold addChange
  cases cw with
  | nil => simp
  | cons a l => simp [QMat.hstack, QMat.vstack, QMat.ofFn]

theorem addChange_cols (F : QMat) (cw : List Nat) : (addChange F cw).cols = F.cols + cw.length := by
  unfold addChange
  cases cw with
  | nil => simp
  | cons a l => simp [QMat.hstack, QMat.vstack, QMat.ofFn]

/-- entries of `_add_level_constraints` -/
theorem addLevel_get (n : Nat) (F : QMat) (hr : F.rows = n) (hc : F.cols = n) (lw : List Nat) (i j : Nat)
    (hi : i < n + lw.length) (hj : j < n + lw.length) :
    (addLevel n F lw).get i j
      = if j < n then (if i < n then F.get i j else levelPat (lw.getD (i - n) 0) j)
        else levelPat (lw.getD (j - n) 0) i := by
  unfold addLevel
  cases lw with
  | nil =>
    simp only [List.length_nil, Nat.add_zero] at hi hj
    simp [hi, hj]
  | cons a l =>
    simp only [List.isEmpty_cons, Bool.false_eq_true, if_false]
    exact get_border F n n hr hc (a :: l).length (fun x c => levelPat ((a :: l).getD x 0) c) i j hi hj

/-- entries of `_add_change_constraints` -/
theorem addChange_get (F : QMat) (cw : List Nat) (i j : Nat)
    (hi : i < F.rows + cw.length) (hj : j < F.cols + cw.length) :
    (addChange F cw).get i j
      = if j < F.cols then (if i < F.rows then F.get i j else changePat (cw.getD (i - F.rows) 0) j)
        else changePat (cw.getD (j - F.cols) 0) i := by
  unfold addChange
  cases cw with
  | nil =>
    simp only [List.length_nil, Nat.add_zero] at hi hj
    simp [hi, hj]
  | cons a l =>
    simp only [List.isEmpty_cons, Bool.false_eq_true, if_false]
    exact get_border F F.rows F.cols rfl rfl (a :: l).length (fun x c => changePat ((a :: l).getD x 0) c) i j hi hj

theorem addEye_get (n : Nat) (F : QMat) (y : Array (Option Rat)) (i j : Nat) (hi : i < F.rows) (hj : j < F.cols) :
    (addEye n F y).get i j = F.get i j + (if i = j ∧ i < n ∧ (y.getD i none).isSome then 1 else 0) := by
  unfold addEye; rw [get_ofFn _ _ _ _ _ hi hj]

theorem sysMatrix_rows (n : Nat) (lam : Rat) (lw cw : List Nat) (y : Array (Option Rat)) :
    (sysMatrix n lam lw cw y).rows = n + lw.length + cw.length := by
  unfold sysMatrix addEye initF
  show (addChange (addLevel n (plainF n lam) lw) cw).rows = _
  rw [addChange_rows, addLevel_rows, plainF_rows]

theorem sysMatrix_cols (n : Nat) (lam : Rat) (lw cw : List Nat) (y : Array (Option Rat)) :
    (sysMatrix n lam lw cw y).cols = n + lw.length + cw.length := by
  unfold sysMatrix addEye initF
  show (addChange (addLevel n (plainF n lam) lw) cw).cols = _
  rw [addChange_cols, addLevel_cols, plainF_cols]

/-- **Closed form of the model's system matrix** (all entries; `N = n + #levels`):
top-left `λKᵀK + diag(obs)`, then the level patterns, then the change patterns, mirrored, zero corner. -/
theorem sysMatrix_get (n : Nat) (lam : Rat) (lw cw : List Nat) (y : Array (Option Rat)) (i j : Nat)
    (hi : i < n + lw.length + cw.length) (hj : j < n + lw.length + cw.length) :
    (sysMatrix n lam lw cw y).get i j =
      (if j < n + lw.length then
          (if i < n + lw.length then
            (if j < n then (if i < n then (plainF n lam).get i j else levelPat (lw.getD (i - n) 0) j)
             else levelPat (lw.getD (j - n) 0) i)
           else changePat (cw.getD (i - (n + lw.length)) 0) j)
        else changePat (cw.getD (j - (n + lw.length)) 0) i)
      + (if i = j ∧ i < n ∧ (y.getD i none).isSome then 1 else 0) := by
  unfold sysMatrix initF
  have hr : (addLevel n (plainF n lam) lw).rows = n + lw.length := by rw [addLevel_rows, plainF_rows]
  have hc : (addLevel n (plainF n lam) lw).cols = n + lw.length := by rw [addLevel_cols, plainF_cols]
  rw [addEye_get _ _ _ _ _ (by rw [addChange_rows, hr]; exact hi) (by rw [addChange_cols, hc]; exact hj)]
  congr 1
  rw [addChange_get _ _ _ _ (by rw [hr]; exact hi) (by rw [hc]; exact hj), hr, hc]
  by_cases hjN : j < n + lw.length
  · by_cases hiN : i < n + lw.length
    · simp only [hjN, hiN, if_true]
      rw [addLevel_get n _ (plainF_rows n lam) (plainF_cols n lam) _ _ _ hiN hjN]
    · simp only [hjN, hiN, if_true, if_false]
  · simp only [hjN, if_false]

/-! ### Constraint patterns are the rows of `Cmat` -/

/-- positions of a list as `Fin n`, given that all are `< n` -/
def posF (n : Nat) (l : List Nat) (h : ∀ a, a < l.length → l.getD a 0 < n) : Fin l.length → Fin n :=
  fun a => ⟨l.getD a.val 0, h a.val a.isLt⟩

/-- observation pattern of a data column -/
def obsOf (n : Nat) (y : Array (Option Rat)) : Fin n → Bool := fun t => (y.getD t.val none).isSome

theorem levelPat_eq (n : Nat) (lw cw : List Nat) (hl : ∀ a, a < lw.length → lw.getD a 0 < n)
    (hc : ∀ a, a < cw.length → cw.getD a 0 < n) (a : Fin lw.length) (j : Fin n) :
    levelPat (lw.getD a.val 0) j.val = (Cmat (posF n lw hl) (posF n cw hc) : Matrix _ _ ℚ) (Sum.inl a) j := by
  unfold levelPat Cmat posF
  simp only [Fin.ext_iff]

theorem changePat_eq (n : Nat) (lw cw : List Nat) (hl : ∀ a, a < lw.length → lw.getD a 0 < n)
    (hc : ∀ a, a < cw.length → cw.getD a 0 < n) (a : Fin cw.length) (j : Fin n) :
    changePat (cw.getD a.val 0) j.val = (Cmat (posF n lw hl) (posF n cw hc) : Matrix _ _ ℚ) (Sum.inr a) j := by
  unfold changePat Cmat posF
  simp only [Fin.ext_iff]

theorem levelPat_out (p i : Nat) (h : p < i) : levelPat p i = 0 := by
  unfold levelPat; simp; omega

theorem changePat_out (p i : Nat) (h : p < i) : changePat p i = 0 := by
  unfold changePat
  have h1 : ¬ i = p := by omega
  have h2 : ¬ i + 1 = p := by omega
  simp [h1, h2]

/-- the index of a block position in the model's matrix -/
def emb (n kl : Nat) {kc : Nat} : Fin n ⊕ (Fin kl ⊕ Fin kc) → Nat
  | Sum.inl t => t.val
  | Sum.inr (Sum.inl a) => n + a.val
  | Sum.inr (Sum.inr a) => n + kl + a.val

/-! ### What `filterData` returns -/

theorem solveChecked_spec (a b x : QMat) (h : QMat.solveChecked a b = some x) : QMat.eqv (a * x) b = true := by
  unfold QMat.solveChecked at h
  split at h
  · split at h
    · next heq => cases h; exact heq
    · cases h
  · cases h

/-- `filterData` returns an answer only together with an exact solution `x` of `F x = rhs` (found by `solveChecked`,
i.e. re-checked with `QMat.eqv`); trend and gap are read off that solution. -/
theorem filterData_spec (lg ex : Rat → Rat) (n : Nat) (lam : Rat) (lw cw : List Nat) (ld cd : List Rat)
    (y : Array (Option Rat)) (f : Filtered) (h : filterData lg ex n lam lw cw ld cd y = some f) :
    ∃ x : QMat, QMat.solveChecked (sysMatrix n lam lw cw y) (QMat.col (rhs lg y ld cd)) = some x ∧
      f.trend = ((Array.range n).map (fun i => x.toVec.getD i 0)).map ex ∧
      f.gap = (Array.range n).map (fun i =>
        match y.getD i none with
        | some v => some (ex (lg v - x.toVec.getD i 0))
        | none => none) := by
  unfold filterData at h
  simp only at h
  split at h
  · cases h
  · next x hx =>
    cases h
    exact ⟨x, hx, rfl, rfl⟩

/-! ### Exact re-check `eqv`, dimensions of the solution, index bookkeeping -/

theorem get_sub (a b : QMat) (i j : Nat) (hi : i < a.rows) (hj : j < a.cols) :
    (a - b).get i j = a.get i j - b.get i j := by
  show (QMat.sub a b).get i j = _
  unfold QMat.sub; rw [get_ofFn _ _ _ _ _ hi hj]

theorem isZero_ofFn (r c : Nat) (f : Nat → Nat → Rat) (h : (QMat.ofFn r c f).isZero = true) (i j : Nat) (hi : i < r) (hj : j < c) :
    f i j = 0 := by
  unfold QMat.isZero QMat.ofFn at h
  simp only [Array.all_eq_true] at h
  simp at h
  exact h i hi j hj

theorem eqv_get (a b : QMat) (h : QMat.eqv a b = true) (i j : Nat) (hi : i < a.rows) (hj : j < a.cols) :
    a.get i j = b.get i j := by
  unfold QMat.eqv at h
  simp only [Bool.and_eq_true] at h
  obtain ⟨_, hz⟩ := h
  have : (QMat.sub a b).isZero = true := hz
  unfold QMat.sub at this
  have := isZero_ofFn _ _ _ this i j hi hj
  exact sub_eq_zero.1 this

theorem eqv_dims (a b : QMat) (h : QMat.eqv a b = true) : a.rows = b.rows ∧ a.cols = b.cols := by
  unfold QMat.eqv at h
  simp only [Bool.and_eq_true, beq_iff_eq] at h
  exact ⟨h.1.1, h.1.2⟩

theorem solve_dims (a b x : QMat) (h : QMat.solve a b = some x) : x.rows = a.rows ∧ x.cols = b.cols := by
  unfold QMat.solve at h
  split at h
  · cases h
  · split at h
    · cases h
    · cases h
      simp [QMat.block, QMat.ofFn]

theorem solveChecked_dims (a b x : QMat) (h : QMat.solveChecked a b = some x) : x.rows = a.rows ∧ x.cols = b.cols := by
  unfold QMat.solveChecked at h
  split at h
  · next x' hx =>
    split at h
    · cases h; exact solve_dims a b _ hx
    · cases h
  · cases h

theorem sum_emb (n kl kc : Nat) (g : Nat → Rat) :
    ∑ k ∈ Finset.range (n + kl + kc), g k = ∑ c : Fin n ⊕ (Fin kl ⊕ Fin kc), g (emb n kl c) := by
  rw [Fintype.sum_sum_type, Fintype.sum_sum_type]
  simp only [emb]
  rw [Fin.sum_univ_eq_sum_range (fun k => g k) n, Fin.sum_univ_eq_sum_range (fun k => g (n + k)) kl,
    Fin.sum_univ_eq_sum_range (fun k => g (n + kl + k)) kc]
  rw [Finset.sum_range_add, Finset.sum_range_add, add_assoc]

theorem rhs_size (lg : Rat → Rat) (y : Array (Option Rat)) (ld cd : List Rat) :
    (rhs lg y ld cd).size = y.size + ld.length + cd.length := by
  simp [rhs]; omega

theorem rhs_get_level (lg : Rat → Rat) (y : Array (Option Rat)) (ld cd : List Rat) (a : Nat) (ha : a < ld.length) :
    (rhs lg y ld cd).getD (y.size + a) 0 = lg (ld.getD a 0) := by
  unfold rhs
  have h1 : y.size + a < y.size + (ld.length + cd.length) := by omega
  simp [Array.getD, h1, ha]

theorem rhs_get_change (lg : Rat → Rat) (y : Array (Option Rat)) (ld cd : List Rat) (a : Nat) (ha : a < cd.length) :
    (rhs lg y ld cd).getD (y.size + ld.length + a) 0 = lg (cd.getD a 0) := by
  unfold rhs
  have h1 : y.size + ld.length + a < y.size + (ld.length + cd.length) := by omega
  have h2 : ¬ (y.size + ld.length + a < y.size + ld.length) := by omega
  have h3 : ¬ (y.size + ld.length + a < y.size) := by omega
  have h4 : y.size + ld.length + a - y.size = ld.length + a := by omega
  simp [Array.getD, h1, Array.getElem_append, ha, h3, h4, List.getElem_append_right]

theorem toVec_getD (x : QMat) (i : Nat) (hi : i < x.rows) : x.toVec.getD i 0 = x.get i 0 := by
  unfold QMat.toVec
  simp [hi]

theorem get_col (v : QVec) (i : Nat) (hi : i < v.size) : (QMat.col v).get i 0 = v.getD i 0 := by
  unfold QMat.col
  rw [get_ofFn _ _ _ _ _ hi (by omega)]

theorem rhs_get_data (lg : Rat → Rat) (y : Array (Option Rat)) (ld cd : List Rat) (i : Nat) (hi : i < y.size) :
    (rhs lg y ld cd).getD i 0 = (match y.getD i none with | some v => lg v | none => 0) := by
  unfold rhs
  have h2 : i < y.size + (ld.length + cd.length) := by omega
  simp [Array.getD, hi, Array.getElem_append_left]
  rcases y[i] with _ | v <;> simp [h2]

theorem mul_rows (a b : QMat) : (a * b).rows = a.rows := rfl
theorem mul_cols (a b : QMat) : (a * b).cols = b.cols := rfl
theorem col_cols (v : QVec) : (QMat.col v).cols = 1 := rfl
theorem col_rows (v : QVec) : (QMat.col v).rows = v.size := rfl

/-! ### `log=True` and the encompassing span -/

theorem getD_map_option (y : Array (Option Rat)) (g : Rat → Rat) (i : Nat) :
    (y.map (Option.map g)).getD i none = (y.getD i none).map g := by
  simp [Array.getD]
  by_cases h : i < y.size <;> simp [h]

theorem sysMatrix_map (n : Nat) (lam : Rat) (lw cw : List Nat) (y : Array (Option Rat)) (g : Rat → Rat) :
    sysMatrix n lam lw cw (y.map (Option.map g)) = sysMatrix n lam lw cw y := by
  unfold sysMatrix addEye
  congr 1
  funext i j
  rw [getD_map_option]
  cases y.getD i none <;> rfl

theorem rhs_map (lg : Rat → Rat) (y : Array (Option Rat)) (ld cd : List Rat) :
    rhs id (y.map (Option.map lg)) (ld.map lg) (cd.map lg) = rhs lg y ld cd := by
  unfold rhs
  simp only [List.map_id, Array.map_map]
  congr 2
  apply Array.map_congr_left
  intro o _
  cases o <;> rfl

/-- `log=True` is `exp ∘ hpf ∘ log` on the model -/
theorem filterData_log (lg ex : Rat → Rat) (n : Nat) (lam : Rat) (lw cw : List Nat) (ld cd : List Rat)
    (y : Array (Option Rat)) :
    filterData lg ex n lam lw cw ld cd y =
      (filterData id id n lam lw cw (ld.map lg) (cd.map lg) (y.map (Option.map lg))).map
        (fun f => ⟨f.trend.map ex, f.gap.map (Option.map ex), f.mult⟩) := by
  unfold filterData
  simp only [sysMatrix_map, rhs_map]
  cases QMat.solveChecked (sysMatrix n lam lw cw y) (QMat.col (rhs lg y ld cd)) with
  | none => rfl
  | some x =>
    simp only [Option.map_some, Option.some.injEq]
    congr 1
    · simp
    · simp only [Array.map_map]
      apply Array.map_congr_left
      intro i _
      simp only [Function.comp, getD_map_option]
      cases y.getD i none <;> simp

theorem encompassing_bounds (dlo dhi : Int) (level change : Option Ser) (slo shi : Int) :
    (encompassing dlo dhi level change slo shi).1 ≤ slo ∧ shi ≤ (encompassing dlo dhi level change slo shi).2 := by
  unfold encompassing
  rcases level with _ | l <;> rcases change with _ | c <;> simp [List.foldl]

theorem encompassing_idem (dlo dhi : Int) (level change : Option Ser) (slo shi : Int) :
    encompassing dlo dhi level change (encompassing dlo dhi level change slo shi).1
      (encompassing dlo dhi level change slo shi).2 = encompassing dlo dhi level change slo shi := by
  unfold encompassing
  rcases level with _ | l <;> rcases change with _ | c <;> simp [List.foldl]

/-- widening the requested span to the encompassing span does not change the problem -/
theorem setup_wide (r : Request) :
    setup { r with span := some ((setup r).lo, (setup r).hi) }
      = { setup r with slo := (setup r).lo, shi := (setup r).hi } := by
  unfold setup
  simp only [Option.getD_some]
  rw [encompassing_idem]

theorem setup_shi_le (r : Request) : (setup r).lo ≤ (setup r).slo ∧ (setup r).shi ≤ (setup r).hi := by
  unfold setup
  simp only
  exact encompassing_bounds _ _ _ _ _ _

theorem setup_n (r : Request) : (setup r).n = ((setup r).hi - (setup r).lo + 1).toNat := by
  unfold setup; rfl

end IrisVerif.HPModel
