/-
Bridge (C01, simulator): the state recursion executed by `FirstOrder.simulateFrame` (exact rationals, `QMat`) is, seen
through the views of `Lemmas/QMatRefines.lean`, the theorem-level `C01.path`; and the executable forward expansion
`FirstOrder.expansion` is `C01.Rexp`.  Hence `C01.residAt_eq` / `C01.level_eq_steadypath_add_deviation` / `C01.nonexplosive`
speak about the state path the executable simulator computes.

Proved here: (1) the internal fold of `simulateFrame` projects to the pure state recursion `xiStep`;
(2) one step and the whole fold of `xiStep` are `C01.path` on the views; (3) `expansion` refines `Rexp`.
NOT proved here (tied by the exact `simulate-dyadic` correspondence stream only): the write-back `setCol` of the
current-dated rows into the data matrix, the measurement rows, the sum inside `antImpact` (= `C01.impact`), `initXi`,
and the frame loop `simulate`.
-/
import IrisVerif.Props.C01
import IrisVerif.Props.QMatBridge
import IrisVerif.Model.FirstOrder
import IrisVerif.Lemmas.QMatRefines

open Matrix

set_option linter.unusedSectionVars false

namespace IrisVerif.BridgeC01Sim

open IrisVerif IrisVerif.QMat IrisVerif.FirstOrder

/-- first column of a `QMat` as a vector -/
def vecOf (n : Nat) (a : QMat) : Fin n → ℚ := fun i => a.get i 0

/-- the state recursion inside `simulateFrame` -/
def xiStep (T K Pu : QMat) (imp : Array (Option QMat)) (xi : QMat) (t : Nat) : QMat :=
  let xi := T * xi + K
  let xi := xi + colOf Pu t
  match imp.getD t none with | some s => xi + s | none => xi

/-- the fold of `simulateFrame`, verbatim -/
def frameFold (solT : Solution) (msT : MeasSol) (curr : List (Nat × Nat)) (imp : Array (Option QMat)) (Pu : QMat)
    (w : QMat) (cols : List Nat) (st : QMat × QMat × QMat) : QMat × QMat × QMat :=
  cols.foldl (fun (st : QMat × QMat × QMat) t =>
      let (xi, x, y) := st
      let xi := solT.T * xi + solT.K
      let xi := xi + colOf Pu t
      let xi := match imp.getD t none with | some s => xi + s | none => xi
      let x := setCol x curr t xi
      let yv := msT.Z * xi + (if w.rows == 0 then QMat.zero msT.Z.rows 1 else msT.H * colOf w t) + msT.D
      let y := setCol y ((List.range y.rows).map (fun r => (r, r))) t yv
      (xi, x, y)) st

/-- `simulateFrame` is that fold -/
theorem simulateFrame_eq (sol : Solution) (ms : MeasSol) (deviation : Bool) (solvec : List Token) (trueInit : List Bool)
    (d : Data) (first simLast : Nat) :
    simulateFrame sol ms deviation solvec trueInit d first simLast =
      (let solT := if deviation then deviationSolution sol else sol
       let msT := if deviation then deviationMeas ms else ms
       let r := frameFold solT msT (currIndexes solvec) (antImpact sol d.v first simLast d.x.cols)
          (if d.u.rows == 0 then QMat.zero sol.T.rows d.x.cols else solT.P * d.u) d.w
          ((List.range (simLast + 1 - first)).map (· + first)) (initXi solvec trueInit d.x first, d.x, d.y)
       { d with x := r.2.1, y := r.2.2 }) := by
  rfl

/-- the state component of the fold is the pure state recursion -/
theorem frameFold_fst (solT : Solution) (msT : MeasSol) (curr : List (Nat × Nat)) (imp : Array (Option QMat)) (Pu w : QMat)
    (cols : List Nat) (st : QMat × QMat × QMat) :
    (frameFold solT msT curr imp Pu w cols st).1 = cols.foldl (xiStep solT.T solT.K Pu imp) st.1 := by
  unfold frameFold
  induction cols generalizing st with
  | nil => rfl
  | cons t rest ih =>
    rw [List.foldl_cons, List.foldl_cons, ih]
    rfl

/-! ### views -/

theorem mul_rows (a b : QMat) : (a * b).rows = a.rows := rfl
theorem mul_cols (a b : QMat) : (a * b).cols = b.cols := rfl
theorem add_rows (a b : QMat) : (a + b).rows = a.rows := rfl
theorem add_cols (a b : QMat) : (a + b).cols = a.cols := rfl

theorem vecOf_mul (T x : QMat) (n : Nat) (hr : T.rows = n) (hc : T.cols = n) (hx : 0 < x.cols) :
    vecOf n (T * x) = T.toMat n n *ᵥ vecOf n x := by
  funext i
  have hi : (i : Nat) < T.rows := by rw [hr]; exact i.isLt
  simp only [vecOf, get_mul, hi, hx, and_self, if_true, Matrix.mulVec, dotProduct, toMat_apply, hc]
  exact (Fin.sum_univ_eq_sum_range (fun k => T.get i k * x.get k 0) n).symm

theorem vecOf_add (a b : QMat) (n : Nat) (hr : a.rows = n) (hc : 0 < a.cols) :
    vecOf n (a + b) = vecOf n a + vecOf n b := by
  funext i
  have hi : (i : Nat) < a.rows := by rw [hr]; exact i.isLt
  simp [vecOf, get_add, hi, hc]

/-- view of the anticipated impact at column `t` (`none` = no impact) -/
def impV (n : Nat) (imp : Array (Option QMat)) (t : Nat) : Fin n → ℚ :=
  match imp.getD t none with | some s => vecOf n s | none => 0

/-- **one step of the executable recursion is one step of `C01.path`** -/
theorem vecOf_xiStep (T K Pu : QMat) (imp : Array (Option QMat)) (xi : QMat) (t n : Nat)
    (hr : T.rows = n) (hc : T.cols = n) (hx : xi.cols = 1) :
    vecOf n (xiStep T K Pu imp xi t)
      = T.toMat n n *ᵥ vecOf n xi + vecOf n K + vecOf n (colOf Pu t) + impV n imp t := by
  have h1 : (T * xi + K).rows = n := by rw [add_rows, mul_rows, hr]
  have h2 : 0 < (T * xi + K).cols := by rw [add_cols, mul_cols, hx]; exact Nat.one_pos
  have h3 : (T * xi + K + colOf Pu t).rows = n := by rw [add_rows]; exact h1
  have h4 : 0 < (T * xi + K + colOf Pu t).cols := by rw [add_cols]; exact h2
  have base : vecOf n (T * xi + K + colOf Pu t) = T.toMat n n *ᵥ vecOf n xi + vecOf n K + vecOf n (colOf Pu t) := by
    rw [vecOf_add _ _ n h1 h2, vecOf_add _ _ n (by rw [mul_rows, hr]) (by rw [mul_cols, hx]; exact Nat.one_pos),
      vecOf_mul T xi n hr hc (by rw [hx]; exact Nat.one_pos)]
  unfold xiStep impV
  cases h : imp.getD t none with
  | none => simp only [base, add_zero]
  | some s => simp only []; rw [vecOf_add _ _ n h3 h4, base]

theorem xiStep_cols (T K Pu : QMat) (imp : Array (Option QMat)) (xi : QMat) (t : Nat) :
    (xiStep T K Pu imp xi t).cols = xi.cols := by
  unfold xiStep
  cases h : imp.getD t none <;> rfl

theorem foldl_xiStep_cols (T K Pu : QMat) (imp : Array (Option QMat)) (cols : List Nat) (xi : QMat) :
    (cols.foldl (xiStep T K Pu imp) xi).cols = xi.cols := by
  induction cols generalizing xi with
  | nil => rfl
  | cons t rest ih => rw [List.foldl_cons, ih, xiStep_cols]

/-- **Bridge: the state path computed by the executable simulator is `C01.path`.**  With `Tm Kv Pm` the views of the solution,
`uc t` the shock vector of data column `t` (`Pu = P · U`, so column `t` of `Pu` is `Pm *ᵥ uc t`), after the columns
`first, …, first + m - 1` the state is `path Tm Kv Pm ξ0 u imp m` with `u k = uc (first + k - 1)`, `imp k = impV (first + k - 1)`. -/
theorem foldl_xiStep_eq_path (T K Pu : QMat) (imp : Array (Option QMat)) (xi0 : QMat) (n nu first ncols : Nat)
    (Pm : Matrix (Fin n) (Fin nu) ℚ) (uc : Nat → Fin nu → ℚ)
    (hr : T.rows = n) (hc : T.cols = n) (hx : xi0.cols = 1)
    (hPu : ∀ t, t < ncols → vecOf n (colOf Pu t) = Pm *ᵥ uc t) (m : Nat) (hm : first + m ≤ ncols) :
    vecOf n (((List.range m).map (· + first)).foldl (xiStep T K Pu imp) xi0)
      = C01.path (T.toMat n n) (vecOf n K) Pm (vecOf n xi0) (fun k => uc (first + k - 1)) (fun k => impV n imp (first + k - 1)) m := by
  induction m with
  | zero => rfl
  | succ m ih =>
    rw [List.range_succ, List.map_append, List.foldl_append, List.map_singleton, List.foldl_cons, List.foldl_nil,
      vecOf_xiStep T K Pu imp _ (m + first) n hr hc (by rw [foldl_xiStep_cols, hx]), ih (by omega), hPu _ (by omega), C01.path]
    have e : first + (m + 1) - 1 = m + first := by omega
    rw [e]

/-- column `t` of `P · U` is `P *ᵥ (column t of U)` -/
theorem vecOf_colOf_mul (P U : QMat) (n nu : Nat) (hr : P.rows = n) (hc : P.cols = nu) (t : Nat) (ht : t < U.cols) :
    vecOf n (colOf (P * U) t) = P.toMat n nu *ᵥ (fun k : Fin nu => U.get k t) := by
  funext i
  have hi : (i : Nat) < P.rows := by rw [hr]; exact i.isLt
  unfold vecOf colOf
  rw [get_block]
  simp only [mul_rows, Nat.sub_zero, hi, Nat.add_sub_cancel_left, Nat.lt_one_iff, and_self, if_true, Nat.zero_add, Nat.add_zero,
    get_mul, Matrix.mulVec, dotProduct, toMat_apply, hc, ht]
  exact (Fin.sum_univ_eq_sum_range (fun k => P.get i k * U.get k t) nu).symm

/-- the bridge for the product form used by `simulateFrame` (`Pu = P · U`, transition shocks present) -/
theorem foldl_xiStep_eq_path_PU (T K P U : QMat) (imp : Array (Option QMat)) (xi0 : QMat) (n nu first : Nat)
    (hr : T.rows = n) (hc : T.cols = n) (hx : xi0.cols = 1) (hPr : P.rows = n) (hPc : P.cols = nu)
    (m : Nat) (hm : first + m ≤ U.cols) :
    vecOf n (((List.range m).map (· + first)).foldl (xiStep T K (P * U) imp) xi0)
      = C01.path (T.toMat n n) (vecOf n K) (P.toMat n nu) (vecOf n xi0)
          (fun k => fun j : Fin nu => U.get j (first + k - 1)) (fun k => impV n imp (first + k - 1)) m :=
  foldl_xiStep_eq_path T K (P * U) imp xi0 n nu first U.cols (P.toMat n nu) (fun t j => U.get j t) hr hc hx
    (fun t ht => vecOf_colOf_mul P U n nu hPr hPc t ht) m hm

/-! ### the forward expansion -/

/-- `FirstOrder.expansion` refines `C01.Rexp`: entry `0` is `P`, entry `k+1` is `-(X J^k Ru)` -/
theorem expansion_getD_zero (P X J Ru : QMat) (forward : Nat) :
    (expansion P X J Ru forward).getD 0 (QMat.zero 0 0) = P := by
  unfold expansion
  simp [Array.getD]

theorem expansion_getD_succ (P X J Ru : QMat) (forward k : Nat) (hk : k < forward) :
    (expansion P X J Ru forward).getD (k + 1) (QMat.zero 0 0) = -(X * QMat.pow J k * Ru) := by
  unfold expansion
  have hsz : k < (powers J forward).size := by rw [QMatBridge.powers_size]; omega
  have hp : (powers J forward)[k] = J.pow k := by
    have := QMatBridge.powers_getElem? J forward k (by omega)
    rw [Array.getElem?_eq_getElem hsz] at this
    exact Option.some.inj this
  simp [Array.getD]
  have h1 : k + 1 < 1 + forward := by omega
  rw [dif_pos h1, dif_pos hsz, hp]

/-- **Bridge: the executable forward expansion is `C01.Rexp`** (`R_0 = P`, `R_k = -X J^(k-1) Ru`) on the views -/
theorem toMat_expansion (P X J Ru : QMat) (n nu nj forward k : Nat) (hk : k ≤ forward)
    (hXr : X.rows = n) (hXc : X.cols = nj) (hJr : J.rows = nj) (hJc : J.cols = nj) (hRc : Ru.cols = nu) :
    ((expansion P X J Ru forward).getD k (QMat.zero 0 0)).toMat n nu
      = C01.Rexp (P.toMat n nu) (X.toMat n nj) (J.toMat nj nj) (Ru.toMat nj nu) k := by
  cases k with
  | zero => rw [expansion_getD_zero]; rfl
  | succ k =>
    have hpc : (QMat.pow J k).cols = nj := by rw [pow_cols J (hJr.trans hJc.symm), hJc]
    rw [expansion_getD_succ P X J Ru forward k (by omega), C01.Rexp,
      toMat_neg _ n nu (by rw [mul_rows, mul_rows, hXr]) (by rw [mul_cols, hRc]),
      toMat_mul (X * QMat.pow J k) Ru n nj nu (by rw [mul_rows, hXr]) (by rw [mul_cols, hpc]) hRc,
      toMat_mul X (QMat.pow J k) n nj nj hXr hXc hpc, toMat_pow J nj hJr hJc]

end IrisVerif.BridgeC01Sim
