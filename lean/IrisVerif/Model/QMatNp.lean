/-
numpy-flavoured helpers over `QMat` for the code that `tools/gens/npmat.py` generates from /repo's numpy sources
(`Generated/*Gen.lean`).  Pure executable definitions, no Mathlib.

Conventions of the generated code (the *meaning* the translator gives to the numpy subset it accepts):

* every array is two-dimensional and is a `QMat`; Python `int`s are `Int`, Python floats are `Rat`;
* a basic slice bound is an `Option Int` (`none` = omitted) with Python's rules: a negative bound counts from the
  end and every bound is clamped to the axis (`sliceIdx`), so `X[:k, :]`, `X[k:, k:]`, `X[:, :-1]` mean what they mean
  in numpy for every `k`;
* in-place slice assignment `X[a:b, c:d] = E` is the functional update `setSlice X a b c d E` (the translator has
  checked that `X` has no live alias), `X[a:b, c:d] = v` for a scalar is `fillSlice`;
* Python *exceptions* are not modelled: the definitions are total.  An operation on which numpy would raise (shape
  mismatch of `@`/`+`, an index out of range, a `None` operand) or *broadcast* (operands of unequal shape in an
  elementwise operation or in a slice assignment) has an arbitrary-but-fixed value here (the one the total `QMat`
  operation gives: the left operand's dimensions, zeros outside the stored data).  The generated definitions
  therefore agree with the Python on every run that neither raises nor broadcasts; that side condition is covered by
  the differential tie (C) of the property, not by the translator.
-/
import IrisVerif.Model.QMat

namespace IrisVerif.QMatNp
open IrisVerif

/-- Python's normalisation of a slice bound `k` on an axis of length `n`: negative counts from the end, then clamp
to `[0, n]` -/
def sliceIdx (n : Nat) (k : Int) : Nat :=
  if k < 0 then (k + (n : Int)).toNat else min k.toNat n

/-- lower bound of a slice (`none` = omitted = 0) -/
def lo (n : Nat) : Option Int → Nat
  | none => 0
  | some k => sliceIdx n k

/-- upper bound of a slice (`none` = omitted = axis length) -/
def hi (n : Nat) : Option Int → Nat
  | none => n
  | some k => sliceIdx n k

/-- `a[r0:r1, c0:c1]` -/
def slice (a : QMat) (r0 r1 c0 c1 : Option Int) : QMat :=
  QMat.block a (lo a.rows r0) (hi a.rows r1) (lo a.cols c0) (hi a.cols c1)

/-- `a[r0:r1, c0:c1] = e` as a functional update (`e` of the shape of the slice) -/
def setSlice (a : QMat) (r0 r1 c0 c1 : Option Int) (e : QMat) : QMat :=
  QMat.ofFn a.rows a.cols (fun i j =>
    if lo a.rows r0 ≤ i ∧ i < hi a.rows r1 ∧ lo a.cols c0 ≤ j ∧ j < hi a.cols c1
    then e.get (i - lo a.rows r0) (j - lo a.cols c0) else a.get i j)

/-- `a[r0:r1, c0:c1] = v` for a scalar `v` -/
def fillSlice (a : QMat) (r0 r1 c0 c1 : Option Int) (v : Rat) : QMat :=
  QMat.ofFn a.rows a.cols (fun i j =>
    if lo a.rows r0 ≤ i ∧ i < hi a.rows r1 ∧ lo a.cols c0 ≤ j ∧ j < hi a.cols c1 then v else a.get i j)

/-- Python's normalisation of an *index* (not a slice bound): `none` when out of range (numpy raises IndexError) -/
def index? (n : Nat) (k : Int) : Option Nat :=
  if k < 0 then (if -k ≤ (n : Int) then some (k + (n : Int)).toNat else none)
  else (if k.toNat < n then some k.toNat else none)

/-- `a[i, j]` (0 where numpy raises) -/
def entry (a : QMat) (i j : Int) : Rat :=
  match index? a.rows i, index? a.cols j with
  | some p, some q => a.get p q
  | _, _ => 0

/-- `a[i, j] = v` as a functional update (unchanged where numpy raises) -/
def setEntry (a : QMat) (i j : Int) (v : Rat) : QMat :=
  match index? a.rows i, index? a.cols j with
  | some p, some q => QMat.ofFn a.rows a.cols (fun r c => if r = p ∧ c = q then v else a.get r c)
  | _, _ => a

/-- `a[:, j]`: a 1-D array, kept as an `a.rows × 1` column (empty where numpy raises) -/
def colAt (a : QMat) (j : Int) : QMat :=
  match index? a.cols j with
  | some q => QMat.block a 0 a.rows q (q + 1)
  | none => QMat.zero 0 0

/-- `a.shape` -/
def shape (a : QMat) : Int × Int := ((a.rows : Int), (a.cols : Int))

/-- `_np.zeros(shape)` -/
def zeros (s : Int × Int) : QMat := QMat.zero s.1.toNat s.2.toNat

/-- `_np.eye(n)` -/
def eye (n : Int) : QMat := QMat.identity n.toNat

/-- `_np.eye(m, n)` -/
def eye2 (m n : Int) : QMat := QMat.ofFn m.toNat n.toNat (fun i j => if i = j then 1 else 0)

/-- `range(n)` -/
def range (n : Int) : List Int := (List.range n.toNat).map Int.ofNat

/-- elementwise product `a * b` of two arrays of equal shape -/
def hadamard (a b : QMat) : QMat := QMat.ofFn a.rows a.cols (fun i j => a.get i j * b.get i j)

/-- `a / k` for a scalar `k` -/
def divScalar (a : QMat) (k : Rat) : QMat := QMat.ofFn a.rows a.cols (fun i j => a.get i j / k)

/-- `a / b` elementwise for arrays of equal shape -/
def divElem (a b : QMat) : QMat := QMat.ofFn a.rows a.cols (fun i j => a.get i j / b.get i j)

/-- `a + k` for a scalar `k` -/
def addScalar (a : QMat) (k : Rat) : QMat := QMat.ofFn a.rows a.cols (fun i j => a.get i j + k)

/-- an array where the code may have left `None` (reading `None` raises in Python; totalised as the 0 × 0 matrix) -/
def unwrap (o : Option QMat) : QMat := o.getD (QMat.zero 0 0)

/-- `xs[k]` for a Python list (`d` where Python raises IndexError) -/
def listGet {α : Type} (xs : List α) (k : Int) (d : α) : α :=
  match index? xs.length k with
  | some p => xs.getD p d
  | none => d

/-- `xs[k] = v` for a Python list, as a functional update (unchanged where Python raises IndexError) -/
def listSet {α : Type} (xs : List α) (k : Int) (v : α) : List α :=
  match index? xs.length k with
  | some p => xs.set p v
  | none => xs

/-- `enumerate(xs)` -/
def enumerate {α : Type} (xs : List α) : List (Int × α) := ((List.range xs.length).map Int.ofNat).zip xs

/-- `[v] * n` -/
def replicate {α : Type} (n : Int) (v : α) : List α := List.replicate n.toNat v

/-- `_np.hstack(xs)` / `_np.vstack(xs)` for a list of arrays (the empty list, on which numpy raises, gives 0 × 0) -/
def hstackList : List QMat → QMat
  | [] => QMat.zero 0 0
  | x :: xs => xs.foldl QMat.hstack x

def vstackList : List QMat → QMat
  | [] => QMat.zero 0 0
  | x :: xs => xs.foldl QMat.vstack x

/-! ### arrays with NaN cells (`none` = NaN), for the NaN-fill of masked rows/columns -/

structure NanMat where
  rows : Nat
  cols : Nat
  data : Array (Array (Option Rat))
  deriving Repr, Inhabited, BEq

namespace NanMat
def get (a : NanMat) (i j : Nat) : Option Rat := (a.data.getD i #[]).getD j none
def ofFn (r c : Nat) (f : Nat → Nat → Option Rat) : NanMat :=
  ⟨r, c, (Array.range r).map (fun i => (Array.range c).map (fun j => f i j))⟩
/-- a NaN-free array -/
def ofQMat (a : QMat) : NanMat := ofFn a.rows a.cols (fun i j => some (a.get i j))
/-- `a[mask, :] = nan` for a boolean vector `mask` (of the length of the axis) -/
def nanRows (a : NanMat) (mask : List Bool) : NanMat :=
  ofFn a.rows a.cols (fun i j => if mask.getD i false then none else a.get i j)
/-- `a[:, mask] = nan` -/
def nanCols (a : NanMat) (mask : List Bool) : NanMat :=
  ofFn a.rows a.cols (fun i j => if mask.getD j false then none else a.get i j)
end NanMat

/-- `~mask` for a boolean vector -/
def maskNot (m : List Bool) : List Bool := m.map (fun b => !b)

end IrisVerif.QMatNp
