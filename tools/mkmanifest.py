#!/usr/bin/env python3
"""Writes /verif/MANIFEST.json from the table below (kept in one place so that the manifest stays valid)."""
import json, os

HERE = os.path.dirname(os.path.dirname(os.path.abspath(__file__)))

NOTE_COMMON = ("Trusted base: Lean 4.33 kernel; axioms propext/Classical.choice/Quot.sound only (audited by #print axioms on every run; "
               "no sorry/native_decide/bv_decide/own axioms); tools/py2lean.py; the harness (generators, canonicalisers, oracles, driver parsing); "
               "CPython/numpy/scipy as execution substrate. ")

# properties whose check is claimed; each harness/cXX.py carries its own MANIFEST literal
CLAIMED = ["C01", "C02", "C03", "C04", "C05", "C06", "C07", "C08", "C09", "C10", "C11", "C12", "C13", "C14", "C15", "C16", "C17", "C18", "C19", "C20"]

NOT_CLAIMED_REASON = {}


def manifest_of(pid):
    import ast
    path = os.path.join(HERE, "harness", pid.lower() + ".py")
    tree = ast.parse(open(path).read())
    for n in tree.body:
        if isinstance(n, ast.Assign) and any(isinstance(t, ast.Name) and t.id == "MANIFEST" for t in n.targets):
            d = ast.literal_eval(n.value)
            d["note"] = NOTE_COMMON + d.get("note", "")
            return d
    raise SystemExit(f"{path}: no MANIFEST literal")


CHECKS = {pid: manifest_of(pid) for pid in CLAIMED}


def drivers_of(pids):
    import re
    out = []
    for pid in pids:
        src = open(os.path.join(HERE, "harness", pid.lower() + ".py")).read()
        m = re.search(r"DRIVERS\s*=\s*\[(.*?)\]", src)
        ds = [x.strip().strip('"').strip("'") for x in m.group(1).split(",") if x.strip()] if m else [pid]
        for d in ds:
            mod = f"IrisVerif.Driver.{d}"
            if mod not in out:
                out.append(mod)
    return out

NOT_YET = {}
for i in range(1, 21):
    pid = f"C{i:02d}"
    if pid not in CHECKS:
        NOT_YET[pid] = NOT_CLAIMED_REASON.get(pid) or "check not built yet in this round (planned in DESIGN.md section 7); not claimed until its Lean model, theorems and correspondence run"


def main():
    checks = []
    for pid, c in sorted(CHECKS.items()):
        checks.append({
            "property_id": pid,
            "quick_cmd": f"./check {pid} --tier quick",
            "thorough_cmd": f"./check {pid} --tier thorough",
            "evidence_file": f"/verif/evidence/{pid}.json",
            "replay_cmd_template": f"./check {pid} --replay {{path}}",
            "engine": "lean4-model+correspondence",
            "level_claimed": {"category": c["category"], "text": c["text"], "design_ref": c["design"]},
            "level_note": c["note"],
            "technique": c["technique"],
        })
    m = {
        "version": 1,
        "setup_cmd": "cd /verif && /venv/bin/python tools/py2lean.py && cd lean && lake build IrisVerif " + " ".join(drivers_of(CLAIMED)),
        "hooks": {
            "guard": "IRISPIE_VERIF",
            "enable": "no hooks are needed: the harness calls irispie in-process (editable install of /repo/src); IRISPIE_VERIF is reserved and unused",
            "baseline_off_cmd": "cd /repo && /venv/bin/python -m pytest -ra -q -p no:cacheprovider --timeout=900 --continue-on-collection-errors",
            "source_commits": [],
            "add_only": True,
        },
        "engines": [{
            "name": "lean4-model+correspondence",
            "path": "/verif/lean",
            "serves_properties": sorted(CHECKS),
            "kind_free_text": "Lean 4 executable models + theorems (lake project, Mathlib on the toolchain path), Python-AST->Lean translator, in-process differential harness with independent oracles",
        }],
        "checks": checks,
        "not_applicable": [{"property_id": k, "reason": v} for k, v in sorted(NOT_YET.items())],
        "notes": "Single entry point ./check <id> [--tier quick|thorough] [--replay file]; exit 0 ok, 1 VIOLATION, 2 internal error/timeout. See DESIGN.md.",
    }
    with open(os.path.join(HERE, "MANIFEST.json"), "w") as f:
        json.dump(m, f, indent=1)
    print(f"MANIFEST.json: {len(checks)} checks, {len(NOT_YET)} not yet claimed")


if __name__ == "__main__":
    main()
