#!/usr/bin/env python3
"""seedsummary.py [pattern]: one line per seeded change from seeded/*/verdict.json (caught / tie-only / MISSED / error)"""
import json, glob, sys, os
pat = sys.argv[1] if len(sys.argv) > 1 else ""
tot = {}
for d in sorted(glob.glob("/verif/seeded/*")):
    n = os.path.basename(d)
    if pat not in n or not os.path.exists(d + "/verdict.json"):
        continue
    v = json.load(open(d + "/verdict.json"))
    st = []
    for p, c in v.get("checks", {}).items():
        r = c.get("replay") or {}
        if c["rc"] == 1 and r and not r.get("no_failing_input"):
            st.append(f"{p}:caught[{r.get('site')}]")
        elif c["rc"] == 1:
            st.append(f"{p}:TIE-ONLY")
        elif c["rc"] == 0:
            st.append(f"{p}:MISSED")
        else:
            st.append(f"{p}:ERROR rc={c['rc']}")
    ok = v.get("demo_clean_rc") == 0 and v.get("demo_mutant_rc") == 1 and v.get("patch_applies")
    key = "caught" if any("caught" in s for s in st) else ("tie" if any("TIE" in s for s in st) else ("missed" if any("MISSED" in s for s in st) else "error"))
    tot[key] = tot.get(key, 0) + 1
    print(n, "" if ok else "DEMO-NOT-CONFIRMED", " ".join(st))
print(tot)
