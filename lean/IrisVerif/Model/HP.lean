/-
Executable model of `irispie/series/_hp.py` (constrained Hodrick-Prescott filter) over exact
rationals, and of the certificate side of `irispie/series/_ell_one.py` (l1 trend filter).

Python                                         model
------                                         -----
_ConstrainedHodrickPrescottFilter
  ._create_plain_filter_matrix                 `hpK`, `plainF`
  ._add_level_constraints                      `addLevel`
  ._add_change_constraints                     `addChange`
  ._add_eye_for_observations                   `addEye`
  ._extend_data + enforced zeros               `rhs`
  .filter_data                                 `filterData`
_prepare_constraints                           `prepareConstraints`
_remove_first_date_change                      `removeFirstDateChange`
dates.get_encompassing_span                    `encompassing`
_data_hpf (span resolution, clipping)          `dataHpf`

Periods are integer serials of one frequency (mixing frequencies is C09's subject); a missing
observation (NaN) is `none`.  `log=True` is modelled with the logarithm/exponential passed in as
functions (`filterData` takes `lg ex : Rat → Rat`); the driver runs the model on data the harness has
already logged, i.e. with `lg = ex = id`.  The linear solve is `QMat.solveChecked`: an answer is
returned only together with the exact re-check `F * x = rhs`, `none` (= "singular") otherwise.
-/
import IrisVerif.Model.QMat

namespace IrisVerif.HP

open IrisVerif

/-! ### The filter matrix -/

/-- entry `(i, j)` of the second-difference matrix: `K[i,i] = 1, K[i,i+1] = -2, K[i,i+2] = 1`. -/
def kEntry (i j : Nat) : Rat :=
  if j = i then 1 else if j = i + 1 then -2 else if j = i + 2 then 1 else 0

/-- `K = zeros((n-2, n)); K[i,i] = 1; K[i,i+2] = 1; K[i,i+1] = -2`. -/
def hpK (n : Nat) : QMat := QMat.ofFn (n - 2) n kEntry

/-- `self._F = smooth * (K.T @ K)`. -/
def plainF (n : Nat) (lam : Rat) : QMat := QMat.smul lam ((hpK n).transpose * hpK n)

/-- row pattern of a level constraint at position `j`: `e_j`. -/
def levelPat (j pos : Nat) : Rat := if pos = j then 1 else 0

/-- row pattern of a change constraint at position `j ≥ 1`: `e_j - e_{j-1}`
(`extra_rows[i, [j-1, j]] = (-1, 1)`). -/
def changePat (j pos : Nat) : Rat := if pos = j then 1 else if pos + 1 = j then -1 else 0

/-- `_add_level_constraints`: border `F` (n × n) with one row and one column per level constraint. -/
def addLevel (n : Nat) (F : QMat) (lw : List Nat) : QMat :=
  if lw.isEmpty then F else
    let k := lw.length
    let extraRows := QMat.ofFn k n (fun i j => levelPat (lw.getD i 0) j)
    let extraCols := QMat.ofFn (n + k) k (fun r i => levelPat (lw.getD i 0) r)
    QMat.hstack (QMat.vstack F extraRows) extraCols

/-- `_add_change_constraints`: border the current `F` with one row/column per change constraint. -/
def addChange (F : QMat) (cw : List Nat) : QMat :=
  if cw.isEmpty then F else
    let k := cw.length
    let extraRows := QMat.ofFn k F.cols (fun i c => changePat (cw.getD i 0) c)
    let extraCols := QMat.ofFn (F.rows + k) k (fun r i => changePat (cw.getD i 0) r)
    QMat.hstack (QMat.vstack F extraRows) extraCols

/-- the matrix built by `__init__` (no observation pattern yet). -/
def initF (n : Nat) (lam : Rat) (lw cw : List Nat) : QMat :=
  addChange (addLevel n (plainF n lam) lw) cw

/-- `_add_eye_for_observations`: `F[:n, :n] += diag(~isnan(data))`. -/
def addEye (n : Nat) (F : QMat) (y : Array (Option Rat)) : QMat :=
  QMat.ofFn F.rows F.cols (fun i j =>
    F.get i j + (if i = j ∧ i < n ∧ (y.getD i none).isSome then 1 else 0))

/-- the system matrix of one data variant. -/
def sysMatrix (n : Nat) (lam : Rat) (lw cw : List Nat) (y : Array (Option Rat)) : QMat :=
  addEye n (initF n lam lw cw) y

/-- `_extend_data`, optional `log`, then zeros at the missing observations. -/
def rhs (lg : Rat → Rat) (y : Array (Option Rat)) (ld cd : List Rat) : QVec :=
  (y.map (fun o => match o with | some v => lg v | none => 0)) ++ (ld.map lg).toArray ++ (cd.map lg).toArray

structure Filtered where
  trend : Array Rat            -- n values
  gap : Array (Option Rat)     -- n values, `none` where the observation is missing
  mult : Array Rat             -- the multipliers (cut off by the code, kept for the certificate)
  deriving Repr, Inhabited

/-- `filter_data` for one variant; `none` when the exact solve finds `F` singular. -/
def filterData (lg ex : Rat → Rat) (n : Nat) (lam : Rat) (lw cw : List Nat) (ld cd : List Rat)
    (y : Array (Option Rat)) : Option Filtered :=
  let F := sysMatrix n lam lw cw y
  let b := rhs lg y ld cd
  match QMat.solveChecked F (QMat.col b) with
  | none => none
  | some x =>
    let xs := x.toVec
    let trend := (Array.range n).map (fun i => xs.getD i 0)
    let gap := (Array.range n).map (fun i =>
      match y.getD i none with
      | some v => some (ex (lg v - xs.getD i 0))
      | none => none)
    some ⟨trend.map ex, gap, (Array.range (xs.size - n)).map (fun i => xs.getD (n + i) 0)⟩

/-! ### Series, constraints, spans -/

/-- one column of a time series: first period (serial) and values. -/
structure Ser where
  start : Int
  vals : Array (Option Rat)
  deriving Repr, Inhabited

def Ser.stop (s : Ser) : Int := s.start + s.vals.size - 1

/-- value at period `t` (`none` outside the stored range) -/
def Ser.at (s : Ser) (t : Int) : Option Rat :=
  if s.start ≤ t ∧ t ≤ s.stop then s.vals.getD (t - s.start).toNat none else none

/-- `get_data_from_until((lo, hi))` for one column: positions `0 … hi-lo`. -/
def Ser.fromUntil (s : Ser) (lo hi : Int) : Array (Option Rat) :=
  (Array.range (hi - lo + 1).toNat).map (fun (i : Nat) => s.at (lo + (i : Int)))

/-- `_prepare_constraints`: values and positions of the non-missing entries. -/
def prepareConstraints (c : Option Ser) (lo hi : Int) : List Rat × List Nat :=
  match c with
  | none => ([], [])
  | some s =>
    let d := (s.fromUntil lo hi).toList
    let idx := (List.range d.length).filter (fun i => (d.getD i none).isSome)
    (idx.map (fun i => (d.getD i none).getD 0), idx)

/-- `_remove_first_date_change`: a change constraint at position 0 has no predecessor and is dropped. -/
def removeFirstDateChange (cd : List Rat) (cw : List Nat) : List Rat × List Nat :=
  let keep := (List.range cw.length).filter (fun i => cw.getD i 0 ≠ 0)
  (keep.map (fun i => cd.getD i 0), keep.map (fun i => cw.getD i 0))

/-- `get_encompassing_span(self, level, change, span)` -/
def encompassing (dlo dhi : Int) (level change : Option Ser) (slo shi : Int) : Int × Int :=
  let los := [dlo, slo] ++ (level.map (·.start)).toList ++ (change.map (·.start)).toList
  let his := [dhi, shi] ++ (level.map (·.stop)).toList ++ (change.map (·.stop)).toList
  (los.foldl min dlo, his.foldl max dhi)

structure Request where
  lam : Rat
  dstart : Int
  dlen : Nat
  dcols : List (Array (Option Rat))      -- the variants, each of length `dlen ≥ 1`
  level : Option Ser
  change : Option Ser
  span : Option (Int × Int)              -- `(min span, max span)`; `none` = `...` = the data's own range
  deriving Repr, Inhabited

structure Result where
  start : Int
  trend : List (Array Rat)
  gap : List (Array (Option Rat))
  deriving Repr, Inhabited

def clip {α} (a : Array α) (c0 c1 : Nat) : Array α := a.extract c0 c1

/-- everything `_data_hpf` fixes before the variants are filtered -/
structure Setup where
  lo : Int
  hi : Int
  n : Nat
  slo : Int
  shi : Int
  ld : List Rat
  lw : List Nat
  cd : List Rat
  cw : List Nat
  deriving Repr, Inhabited

def setup (r : Request) : Setup :=
  let dlo := r.dstart
  let dhi := r.dstart + r.dlen - 1
  let (slo, shi) := r.span.getD (dlo, dhi)
  let (lo, hi) := encompassing dlo dhi r.level r.change slo shi
  let (ld, lw) := prepareConstraints r.level lo hi
  let (cd0, cw0) := prepareConstraints r.change lo hi
  let (cd, cw) := removeFirstDateChange cd0 cw0
  ⟨lo, hi, (hi - lo + 1).toNat, slo, shi, ld, lw, cd, cw⟩

/-- `_data_hpf`; `lg`/`ex` are the identity for `log=False`. `none` = singular system. -/
def dataHpf (lg ex : Rat → Rat) (r : Request) : Option Result :=
  let s := setup r
  let c0 := (s.slo - s.lo).toNat
  let c1 := (s.shi - s.lo + 1).toNat
  let outs := r.dcols.mapM (fun col =>
    filterData lg ex s.n r.lam s.lw s.cw s.ld s.cd ((Ser.mk r.dstart col).fromUntil s.lo s.hi))
  match outs with
  | none => none
  | some fs => some ⟨s.slo, fs.map (fun f => clip f.trend c0 c1), fs.map (fun f => clip f.gap c0 c1)⟩

/-! ### Certificate side: residual of a given trend in the normal equations -/

/-- constraint matrix `C` (levels then changes), `(lw.length + cw.length) × n`. -/
def conMatrix (n : Nat) (lw cw : List Nat) : QMat :=
  QMat.ofFn (lw.length + cw.length) n (fun i j =>
    if i < lw.length then levelPat (lw.getD i 0) j else changePat (cw.getD (i - lw.length) 0) j)

/-- For a candidate trend `tau` (e.g. the floats returned by the implementation, converted exactly):
`r = (λK'K + W) tau - W y`; the multipliers that fit best, `μ = -(C C')⁻¹ C r`; the stationarity residual
`r + C' μ` and the constraint residual `C tau - c`.  Returns `(max|r + C'μ|, max|C tau - c|)`. -/
def certificate (n : Nat) (lam : Rat) (lw cw : List Nat) (ld cd : List Rat)
    (y : Array (Option Rat)) (tau : QVec) : Option (Rat × Rat) :=
  let A := addEye n (plainF n lam) y
  let wy := QMat.col (y.map (fun o => o.getD 0))
  let t := QMat.col tau
  let r := A * t - wy
  let k := lw.length + cw.length
  if k = 0 then some (r.maxAbs, 0) else
    let C := conMatrix n lw cw
    let c := QMat.col ((ld ++ cd).toArray)
    match QMat.solveChecked (C * C.transpose) (QMat.neg (C * r)) with
    | none => none
    | some mu => some ((r + C.transpose * mu).maxAbs, (C * t - c).maxAbs)

/-! ### l1 trend filter: difference matrices and the dual certificate -/

/-- `_first_order_matrix_setup`: `D[i,i] = 1, D[i,i+1] = -1`;
`_second_order_matrix_setup`: `D[i,i] = 1, D[i,i+1] = -2, D[i,i+2] = 1`. -/
def lonfD (order n : Nat) : QMat :=
  if order = 1 then QMat.ofFn (n - 1) n (fun i j => if j = i then 1 else if j = i + 1 then -1 else 0)
  else QMat.ofFn (n - 2) n kEntry

def absQ (x : Rat) : Rat := if x < 0 then -x else x

structure L1Cert where
  nu : QVec          -- dual recovered from the gap: `(D D')⁻¹ D gap`
  rangeErr : Rat     -- `max |gap - D' nu|`  (the gap must lie in the range of `D'`)
  boxExcess : Rat    -- `max (|nu_i| - λ)⁺`
  dualGap : Rat      -- `Σ_i (λ |(Dτ)_i| - nu_i (Dτ)_i)` with `nu` clipped to the box and `τ = y - D' nu`
  tauErr : Rat       -- `max |trend - (y - D' clip nu)|`
  deriving Repr, Inhabited

/-- Evaluate the optimality conditions of `min ½ Σ_obs (y-τ)² + λ‖Dτ‖₁` on a returned `(trend, gap)`; a missing
observation is `none` in `y` and in `gap` (no fidelity term there: `D'ν` must vanish at that period, which `rangeErr`
measures on the zero-filled gap, and the trend at that period is taken as returned). -/
def l1Certificate (order : Nat) (lam : Rat) (y : Array (Option Rat)) (trend : QVec) (gap : Array (Option Rat)) :
    Option L1Cert :=
  let n := y.size
  let D := lonfD order n
  let g0 : QVec := gap.map (fun o => o.getD 0)
  match QMat.solveChecked (D * D.transpose) (D * QMat.col g0) with
  | none => none
  | some nuM =>
    let nu := nuM.toVec
    let rangeErr := (QMat.col g0 - D.transpose * nuM).maxAbs
    let boxExcess := nu.foldl (fun m x => if m < absQ x - lam then absQ x - lam else m) 0
    let nuC := nu.map (fun x => if x > lam then lam else if x < -lam then -lam else x)
    let dtn := (D.transpose * QMat.col nuC).toVec
    let tauC : QVec := (Array.range n).map (fun t =>
      match y.getD t none with
      | some v => v - dtn.getD t 0
      | none => trend.getD t 0)
    let z := (D * QMat.col tauC).toVec
    let dualGap := (List.range z.size).foldl (fun acc i => acc + (lam * absQ (z.getD i 0) - nuC.getD i 0 * z.getD i 0)) 0
    some ⟨nu, rangeErr, boxExcess, dualGap, (QMat.col trend - QMat.col tauC).maxAbs⟩

end IrisVerif.HP
